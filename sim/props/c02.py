"""C02 -- each injected argument comes from its one declared source (chain world).

plan = {config: {url:[[name,type]], resources:[names], mws:[{name, level, funcs:{phase:{req,opt,kwreq,kwopt,provides}}}],
                 ep:{req,opt,kwreq,kwopt,kind}, rn:{...}},
        ops: [{reqs:[{seq, kind:'route'|'null'}], concurrent:bool, granularity, order, preempts}]}
Oracle: an independent source resolver written from the property text.
"""
import hashlib
import os

from clastic import Application, Route, Response, Middleware
from clastic.decorators import clastic_decorator
from clastic.route import BoundRoute
from clastic.application import DispatchState

from sim.core.base import Check, RunResult, Streams, InvalidPlan, canon
from sim.core.gateway import make_environ, call_app
from sim.core.sched import BatonScheduler
from sim.core import runner
from sim.worlds.chain import RT, DEFAULT, make_function, make_mw_type

PHASES = ('request', 'endpoint', 'render')
BUILTINS_REQ = ['request', '_application', '_route', '_dispatch_state']
KINDS = ['function', 'function', 'lambda', 'method', 'callable', 'static', 'classmethod', 'decorated', 'varkw', 'varkw']
WATCH = (os.path.join(runner.REPO, 'clastic') + os.sep, '<sinter', '<sim chain')


# ---------------------------------------------------------------------------
# generation (validity rules V1-V3 of DESIGN.md 3.1)

HAZARD_NAMES = ['isinstance', 'isinstance', 'type', 'id', 'len', 'format', 'funcs', 'endpoint', 'render', 'resp', 'BaseResponse', 'process_request', 'inject', 'ret', 'route', 'kwargs',
                '__traceback_hide__', 'code', 'env', 'chain']


def gen_config(rng):
    names = list('abcdefgh')
    rng.shuffle(names)
    if rng.random() < 0.35:
        # ordinary identifiers that happen to be spelled like names the framework's generated glue code uses itself
        for i, hz in enumerate(rng.sample(HAZARD_NAMES, rng.randint(1, 3))):
            names[rng.randrange(len(names))] = hz
        names = sorted(set(names), key=names.index)
    url = names[:rng.randint(0, 2)]
    rest = names[len(url):]
    res = rest[:rng.randint(0, 2)]
    rest = rest[len(res):]
    rres = rest[:rng.randint(0, 1)]       # route-level resources
    pool = rest[len(rres):]
    fresh = ['z1', 'z2']
    nmw = rng.randint(0, 4)
    napp = rng.randint(0, nmw)
    spec = []
    for i in range(nmw):
        prov = {}
        for ph in PHASES:
            if rng.random() < 0.6:
                n = rng.randint(0, min(2, len(pool)))
                prov[ph] = [pool.pop() for _ in range(n)]
        if not prov:
            prov[rng.choice(PHASES)] = []
        spec.append(prov)
    all_req_prov = set(p for s in spec for p in s.get('request', []))
    app_req_prov = set(p for s in spec[:napp] for p in s.get('request', []))
    all_prov = set(p for s in spec for q in s.values() for p in q)
    base_app = set(res) | set(BUILTINS_REQ)
    base_route = base_app | set(url) | set(rres)
    sofar = {'request': set(), 'endpoint': set(), 'render': set()}

    def pick(avail_required, avail_all, ban_optional):
        req = rng.sample(sorted(avail_required), rng.randint(0, min(3, len(avail_required))))
        optc = sorted((set(names) | set(fresh) | set(BUILTINS_REQ)) - set(req) - set(ban_optional))
        opt = rng.sample(optc, rng.randint(0, min(2, len(optc))))
        ps = req + opt
        rng.shuffle(ps)
        kw = [p for p in ps if rng.random() < 0.3]
        pos = [p for p in ps if p not in kw]
        return {'req': [p for p in pos if p in req], 'opt': [p for p in pos if p in opt],
                'kwreq': [p for p in kw if p in req], 'kwopt': [p for p in kw if p in opt]}
    mws = []
    for i, prov in enumerate(spec):
        is_app = i < napp
        funcs = {}
        for ph in PHASES:
            if ph not in prov:
                continue
            extra = set() if ph == 'request' else set(all_req_prov)
            if ph == 'render':
                extra |= set(['context'])
            avail_route = base_route | sofar[ph] | extra
            if is_app:
                # V1: must also resolve on the catch-all route (no URL bindings, only app-level middlewares)
                avail_req = (avail_route - set(url) - set(rres) - all_req_prov) | (app_req_prov if ph != 'request' else sofar[ph])
            else:
                avail_req = avail_route
            # V2: an optional parameter of a function that itself PROVIDES something never names a value provided
            # elsewhere but not on offer here (clastic's dependency resolver may see a cycle there).  A function that
            # provides nothing may: nobody offers the name at its position, so it gets its own default.
            later = (all_prov - avail_route) if prov[ph] else set()
            f = pick(avail_req, avail_route, later)
            f['provides'] = list(prov[ph])
            f['positional_next'] = rng.random() < 0.35
            funcs[ph] = f
            sofar[ph] |= set(prov[ph])
        mws.append({'name': 'M%d' % i, 'level': 'app' if is_app else 'route', 'funcs': funcs})
    av = base_route | all_req_prov | sofar['endpoint']
    ep = pick(av, av, set())       # may declare, with a default, names only the render side provides
    ep['kind'] = rng.choice(KINDS)
    av = base_route | all_req_prov | sofar['render'] | set(['context'])
    rn = pick(av, av, set())
    rn['kind'] = rng.choice(KINDS)
    utypes = []
    for k, u in enumerate(url):
        t = rng.choice(['str', 'str', 'int', 'float'])
        if k == len(url) - 1 and rng.random() < 0.45:
            # optional and repeated bindings, also with a converter: the converted value may be None, [], 0, 0.0
            t = rng.choice(['multi', 'multi', 'optint', 'optstr', 'optfloat', 'multiint', 'optmulti'])
        utypes.append([u, t])
    cfgd = {'url': utypes, 'resources': list(res), 'route_resources': list(rres), 'mws': mws, 'ep': ep, 'rn': rn}
    if not mws and rng.random() < 0.5:
        cfgd['no_render'] = True       # the barest route there is: an endpoint answering by itself, nothing around it
    # a sibling route BEFORE the main one whose pattern matches the same paths but admits only POST; its URL
    # bindings are named like the main route's route-level resources (legal: those are per route)
    if rng.random() < 0.35:
        # the whole application is embedded in a parent that adds resources of its own: names that nobody
        # offered inside ("fresh" optional parameters) are now on offer, from the parent
        cfgd['parent'] = {'resources': rng.sample(fresh, rng.randint(1, 2)), 'prefix': rng.choice(['/up', '/up/per'])}
        if rng.random() < 0.6:
            # the SAME inner application is afterwards embedded in a second parent that offers fewer (or none) of those
            # names: there the parameters fall back to their defaults -- nothing of the first parent may reach them
            cfgd['parent2'] = {'resources': [r for r in cfgd['parent']['resources'] if rng.random() < 0.35],
                               'prefix': rng.choice(['/two', '/up'])}
        # another application embedded in the same parent BEFORE this one, with resources of the same names (its own objects)
        cfgd['parent']['sibling'] = rng.random() < 0.5
    cfgd['replace_after'] = rng.random() < 0.4
    cfgd['ep_value'] = rng.choice(['dict', 'dict', 'emptydict', 'emptylist'])
    if not cfgd.get('parent') and rng.random() < 0.3:
        cfgd['strip_prefix'] = '/mnt'
    if utypes and rng.random() < 0.6:
        dn = list(rres) + ['dq%d' % i for i in range(len(utypes))]
        cfgd['decoy'] = [[dn[i], t] for i, (u, t) in enumerate(utypes)]
    if rng.random() < 0.5:
        # a custom error renderer: every parameter (also defaulted ones) must be a built-in, _error or a resource
        av = sorted(base_app | set(['_error']))
        req = rng.sample(av, rng.randint(0, min(3, len(av))))
        opt = rng.sample(sorted(set(av) - set(req)), rng.randint(0, min(2, len(av) - len(req))))
        kw = [p for p in req + opt if rng.random() < 0.3]
        cfgd['re'] = {'req': [p for p in req if p not in kw], 'opt': [p for p in opt if p not in kw],
                      'kwreq': [p for p in req if p in kw], 'kwopt': [p for p in opt if p in kw]}
    return cfgd


# ---------------------------------------------------------------------------
# building

def wrap_kind(f_spec, name, default_value):
    kind = f_spec['kind']
    args = dict(params_req=f_spec['req'], params_opt=f_spec['opt'], kw_req=f_spec['kwreq'], kw_opt=f_spec['kwopt'],
                default_value=default_value)
    if kind == 'function':
        return make_function(name, False, bound=False, **args)
    if kind == 'varkw':
        # declares some names and, besides, takes **anything: it must still be handed the declared names only
        sig = list(f_spec['req']) + ['%s=DEFAULT' % p for p in f_spec['opt']]
        if f_spec['kwreq'] or f_spec['kwopt']:
            sig.append('*')
            sig += list(f_spec['kwreq']) + ['%s=DEFAULT' % p for p in f_spec['kwopt']]
        sig.append('**undeclared')
        allp = f_spec['req'] + f_spec['opt'] + f_spec['kwreq'] + f_spec['kwopt']
        src = 'def f(%s):\n    d = {%s}\n    d.update(undeclared)\n    return RT.leaf(%r, d, %r)\n' % (
            ', '.join(sig), ', '.join('%r: %s' % (p, p) for p in allp), name, default_value)
        env = {'RT': RT, 'DEFAULT': DEFAULT}
        exec(compile(src, '<sim chain %s>' % name, 'exec'), env)
        return env['f']
    if kind == 'lambda':
        sig = list(f_spec['req']) + ['%s=DEFAULT' % p for p in f_spec['opt']]
        if f_spec['kwreq'] or f_spec['kwopt']:
            sig.append('*')
            sig += list(f_spec['kwreq']) + ['%s=DEFAULT' % p for p in f_spec['kwopt']]
        allp = f_spec['req'] + f_spec['opt'] + f_spec['kwreq'] + f_spec['kwopt']
        src = 'lambda %s: RT.leaf(%r, {%s}, %r)' % (', '.join(sig), name, ', '.join('%r: %s' % (p, p) for p in allp), default_value)
        return eval(compile(src, '<sim chain %s>' % name, 'eval'), {'RT': RT, 'DEFAULT': DEFAULT})
    if kind in ('method', 'callable', 'classmethod'):
        f = make_function(name, False, bound=True, **args)
        if kind == 'method':
            return type('Holder', (object,), {'handle': f})().handle
        if kind == 'callable':
            return type('CallableObj', (object,), {'__call__': f})()
        return type('Holder', (object,), {'handle': classmethod(f)}).handle
    if kind == 'static':
        f = make_function(name, False, bound=False, **args)
        return type('Holder', (object,), {'handle': staticmethod(f)}).handle
    if kind == 'decorated':
        f = make_function(name, False, bound=False, **args)

        def passthrough(g):
            def wrapper(*a, **kw):
                return g(*a, **kw)
            return wrapper
        return clastic_decorator(passthrough)(f)
    raise InvalidPlan('unknown callable kind %r' % kind)


class Res(object):
    """A resource: a mutable, copyable object, so that identity is observable."""

    def __init__(self, name, tag):
        self.name, self.tag = name, tag

    def __repr__(self):
        return '<Res %s %s>' % (self.name, self.tag)


def make_error_handler(spec):
    from clastic.errors import ErrorHandler
    f = make_function('RE', False, params_req=spec['req'], params_opt=spec['opt'], kw_req=spec['kwreq'],
                      kw_opt=spec['kwopt'], default_value='resp', bound=True)

    def render_error(self, *a, **kw):
        raise AssertionError('replaced below')
    cls = type('SimErrorHandler', (ErrorHandler,), {'render_error': f})
    return cls()


class PrefixStripMW(Middleware):
    def __init__(self, prefix):
        self.prefix = prefix
        self.seen = []

    def wsgi_wrapper(self, inner):
        from werkzeug.wrappers import Request

        def wrapped(environ, start_response):
            self.seen.append(Request(environ).path)        # e.g. for the access log
            path = environ.get('PATH_INFO', '')
            if path.startswith(self.prefix):
                environ['SCRIPT_NAME'] = environ.get('SCRIPT_NAME', '') + self.prefix
                environ['PATH_INFO'] = path[len(self.prefix):]
            return inner(environ, start_response)
        return wrapped


def build(cfg, tag):
    resources = dict((r, Res(r, tag)) for r in cfg['resources'])
    route_resources = dict((r, Res(r, tag + '-route')) for r in cfg.get('route_resources', []))
    objs = {'app': [], 'route': []}
    for m in cfg['mws']:
        cls = make_mw_type('C02%s' % m['name'], True, True, m['funcs'])
        objs[m['level']].append(cls(m['name']))
    # what the endpoint hands to the renderer: a dict, or an EMPTY dict / list (falsy, and still the object to be rendered)
    ep = wrap_kind(cfg['ep'], 'EP', 'resp' if cfg.get('no_render') else cfg.get('ep_value', 'dict'))
    rn = None if cfg.get('no_render') else wrap_kind(cfg['rn'], 'RN', 'resp')
    segs = ['x']
    for u, t in cfg['url']:
        segs.append(SEG[t] % u)
    pattern = '/' + '/'.join(segs)
    eh = make_error_handler(cfg['re']) if cfg.get('re') else None
    first = []
    if cfg.get('decoy'):
        dsegs = ['x'] + [SEG[t] % u for u, t in cfg['decoy']]
        first.append(Route('/' + '/'.join(dsegs), lambda: Response('decoy'), methods=['POST']))
    app = Application(first + [Route(pattern, ep, rn, middlewares=objs['route'], resources=route_resources)],
                      resources=resources, middlewares=objs['app'], error_handler=eh)
    allres = dict(resources)
    allres.update(route_resources)
    handed_over = [resources, route_resources]
    strip = cfg.get('strip_prefix')
    hosts = {}
    if strip and not cfg.get('parent'):
        # the application sits behind a WSGI wrapper of its own that looks at the request (as an access log would) and
        # then strips the mount prefix from PATH_INFO before the application proper sees the environ
        app = Application(first + [Route(pattern, ep, rn, middlewares=objs['route'], resources=route_resources)],
                          resources=resources, middlewares=[PrefixStripMW(strip)] + objs['app'], error_handler=eh)
    if cfg.get('parent'):
        inner, inner_res, inner_pattern = app, dict(allres), pattern
        pres = dict((r, Res(r, tag + '-parent')) for r in cfg['parent']['resources'])
        siblings = []
        if cfg['parent'].get('sibling'):
            sib = Application([('/hello', lambda: Response('sibling'))],
                              resources=dict((r, Res(r, tag + '-sibling')) for r in list(cfg['resources']) + list(cfg['parent']['resources'])))
            siblings.append(('/sibling', sib))
        app = Application(siblings + [(cfg['parent']['prefix'], inner)], resources=pres)
        allres.update(pres)
        pattern = cfg['parent']['prefix'] + inner_pattern
        if cfg.get('parent2'):
            pres2 = dict((r, Res(r, tag + '-parent2')) for r in cfg['parent2']['resources'])
            app2 = Application([(cfg['parent2']['prefix'], inner)], resources=pres2)
            res2 = dict(inner_res)
            res2.update(pres2)
            hosts[2] = (app2, res2, cfg['parent2']['prefix'] + inner_pattern)
            handed_over.append(pres2)
        handed_over.append(pres)
    hosts[1] = (app, allres, pattern)
    if cfg.get('replace_after'):
        # the program goes on using ITS dicts (e.g. to configure the next application): what was registered when the
        # application was built stays registered
        for d in handed_over:
            for k in list(d):
                d[k] = Res(k, tag + '-REPLACED-AFTER-CONSTRUCTION')
    return hosts


SEG = {'str': '<%s>', 'int': '<%s:int>', 'multi': '<%s+>', 'float': '<%s:float>', 'optint': '<%s?int>', 'optstr': '<%s?>',
       'optfloat': '<%s?float>', 'multiint': '<%s+int>', 'optmulti': '<%s*>'}


def url_values(cfg, seq):
    """-> ({binding: the converted value clastic documents for it}, path).  Values are per-request sentinels, except
    that every third or so is one of the values a careless converter loses: 0, 0.0, '0', absent, empty."""
    vals, segs = {}, ['x']
    for u, t in cfg['url']:
        k = (seq + len(cfg['url'])) % 4
        if t == 'int':
            vals[u], sp = [(100000 + seq, None), (0, '0'), (100000 + seq, None), (0, '000')][k]
            segs.append(sp or str(vals[u]))
        elif t == 'float':
            vals[u], sp = [(seq + 0.5, None), (0.0, '0.0'), (float(seq), str(seq)), (seq + 0.25, None)][k]
            segs.append(sp or str(vals[u]))
        elif t == 'optint':
            vals[u], sp = [(100000 + seq, None), (0, '0'), (None, ''), (0, '00')][k]
            if sp != '':
                segs.append(sp or str(vals[u]))
        elif t == 'optfloat':
            vals[u], sp = [(0.0, '0.0'), (seq + 0.5, None), (None, ''), (0.0, '0')][k]
            if sp != '':
                segs.append(sp or str(vals[u]))
        elif t == 'optstr':
            vals[u] = ['v%d%s' % (seq, u), '0', None, 'None'][k]
            if vals[u] is not None:
                segs.append(vals[u])
        elif t == 'multiint':
            vals[u], sp = [([seq, 100000 + seq], None), ([0], '0'), ([0, 0, 7], '0/00/7'), ([100000 + seq], None)][k]
            segs.extend((sp or '/'.join(str(x) for x in vals[u])).split('/'))
        elif t == 'optmulti':
            vals[u] = [['m%d%s' % (seq, u), 'tail'], [], ['0'], ['m%d%s' % (seq, u)]][k]
            segs.extend(vals[u])
        elif t == 'multi':
            vals[u] = ['m%d%s' % (seq, u), 'tail']
            segs.extend(vals[u])
        else:
            # also values that begin / end with characters a careless converter strips
            # (%2541: after the server's ONE decoding the segment still reads %41 -- and stays that way)
            # (e%CC%81 / %E2%84%AA: valid text that is not in a Unicode normal form -- decomposed e-acute, KELVIN SIGN --
            # arrives code point for code point)
            pre = ['', '+', '++', '-', '.', '~', '%2B', ' ', '_', '%2541', '100%25', 'e%CC%81', '%E2%84%AA'][(seq + len(u)) % 13]
            raw = '%sv%d%s%s' % (pre, seq, u, ['', '+', '.'][seq % 3])
            vals[u] = (raw.replace('%2B', '+').replace('%2541', '%41').replace('%25', '%').replace('e%CC%81', 'e\u0301')
                       .replace('%E2%84%AA', '\u212a'))
            segs.append(raw.replace(' ', '%20'))
    return vals, '/' + '/'.join(segs)


# ---------------------------------------------------------------------------
# the independent resolver

def on_offer(cfg, fname, route_kind):
    """{param name: source descriptor} on offer to function *fname* ('M1.endpoint' | 'EP' | 'RN')."""
    chain = [m for m in cfg['mws'] if m['level'] == 'app']
    if route_kind == 'route':
        chain += [m for m in cfg['mws'] if m['level'] == 'route']
    offer = dict((b, 'builtin:' + b) for b in BUILTINS_REQ)
    for r in cfg['resources']:
        offer[r] = 'res:' + r
    if route_kind == 'route' and cfg.get('parent'):
        for r in cfg['parent']['resources']:
            offer[r] = 'res:' + r
    if route_kind == 'route':
        for u, _ in cfg['url']:
            offer[u] = 'url:' + u
        for r in cfg.get('route_resources', []):
            offer[r] = 'res:' + r
    if fname == 'RE':
        offer['_error'] = 'builtin:_error'
        for u, _ in cfg['url']:
            offer.pop(u, None)
        return offer
    if fname in ('EP', 'RN'):
        phase, idx = ('endpoint' if fname == 'EP' else 'render'), len(chain)
    else:
        mname, phase = fname.split('.')
        idx = [m['name'] for m in chain].index(mname)
    if phase == 'render':
        offer['context'] = 'builtin:context'
    for i, m in enumerate(chain):
        if 'request' in m['funcs'] and (phase != 'request' or i < idx):
            for p in m['funcs']['request']['provides']:
                offer[p] = 'prov:%s.request:%s' % (m['name'], p)
        if phase != 'request' and phase in m['funcs'] and i < idx:
            for p in m['funcs'][phase]['provides']:
                offer[p] = 'prov:%s.%s:%s' % (m['name'], phase, p)
    return offer


def declared(cfg, fname):
    if fname == 'RE':
        f = cfg['re']
    elif fname == 'EP':
        f = cfg['ep']
    elif fname == 'RN':
        f = cfg['rn']
    else:
        mname, phase = fname.split('.')
        f = [m for m in cfg['mws'] if m['name'] == mname][0]['funcs'][phase]
    return list(f['req']) + list(f['opt']) + list(f['kwreq']) + list(f['kwopt'])


def declared_of(f):
    return list(f['req']) + list(f['opt']) + list(f['kwreq']) + list(f['kwopt'])


def ALL_PROVIDED(cfg):
    return set(p for m in cfg['mws'] for f in m['funcs'].values() for p in f['provides'])


class C02(Check):
    id = 'C02'
    world = 'chain'
    level = 'exploration'
    design_ref = 'DESIGN.md 3.1'
    runs = {'quick': 5000, 'thorough': 120000}
    shrink_lists = (('ops',), ('config', 'mws'))
    hashseeds = {'quick': ['1:OA', 2], 'thorough': ['1:OA', 2, 3, '4:OA']}
    hashseed_sample = {'quick': 300, 'thorough': 3000}    # the property is quantified over the hash seed
    rule = ('resolvable-by-construction injection stacks (0-4 middlewares at app/route level, any phases, signatures mixing '
            'required/defaulted/keyword-only parameters over URL bindings (str/int/float, repeated, optional, optional/repeated with a converter; values incl. 0, 0.0, absent, empty), resources, built-ins, provides; '
            'endpoint/render as function, lambda, bound method, callable object, static/class method, clastic_decorator-wrapped) '
            'x histories of 2-8 requests (route and catch-all 404) with all source values distinct sentinels, some batches '
            'served concurrently under seeded thread schedules; every call of every harness function is compared, argument '
            'by argument, with an independent source resolver; event-log digests are compared across PYTHONHASHSEEDs in fresh '
            'interpreters. Non-trivial: a request in which some optional parameter was on offer or a concurrent batch; '
            'distinct = (stack shape, callable kinds, request kind, batch mode).')
    assumptions = ('positional-only parameters and cyclic optional dependencies are not generated (C01 territory; DESIGN O2, V2)',
                   'thread pre-emption only inside clastic / generated chains / generated harness functions')
    components = {'real': ['clastic.sinter (get_fb, chain_argspec, build_chain_str, inject, compile_code)',
                           'clastic.middleware.core.make_middleware_chain', 'BoundRoute.execute / Application.dispatch',
                           'boltons FunctionBuilder', 'clastic_decorator'],
                  'stub': ['application code (harness functions with exact signatures recording their kwargs)',
                           'WSGI server / clients', 'thread scheduling choice']}
    level_text = ('Seeded search over injection stacks x request histories x interleavings x hash seeds, with an '
                  'independent resolver as oracle. The configuration space is a sampled input space; what simulation adds '
                  'is the history, interleaving and hash-seed dimensions the property names.')
    level_note = 'Trusted: the resolver (~40 lines from the property text), generator validity rules V1-V3.'
    required_probes = ('two-applications-constructed-at-the-same-time', 'embedded-in-parent-offering-more-names', 'decoy-route-binding-named-like-resource', 'positional-next-multi', 'render-error-injected', 'optional-got-offered-value', 'kwonly-got-offered-value', 'null-route-defaults', 'concurrent-batch',
                       'kind-lambda', 'kind-callable', 'kind-classmethod', 'kind-decorated', 'multi-url-value',
                       'falsy-render-context', 'bare-route-with-catch-all-endpoint', 'kind-varkw', 'callers-dict-changed-after-construction', 'behind-prefix-stripping-wrapper', 'url-list-value-mutated-after-request', 'same-url-as-previous-request-while-another-is-served', 'same-application-embedded-in-second-parent', 'name-spelled-like-generated-code-identifier', 'default-for-name-provided-elsewhere', 'optional-url-binding-absent', 'optional-url-binding-zero', 'optional-url-binding-present', 'url-value-zero', 'multi-url-binding-empty')

    def generate(self, seed, tier):
        S = Streams(seed)
        cfg = gen_config(S['config'])
        rng, sch = S['ops'], S['sched']
        ops = []
        seq = 0
        for _ in range(rng.randint(2, 4)):
            n = rng.choice([1, 1, 2, 3])
            reqs = []
            for _i in range(n):
                seq += 1
                reqs.append({'seq': seq, 'kind': rng.choice(['route', 'route', 'route', 'null'])})
                if cfg.get('parent2') and rng.random() < 0.5:
                    reqs[-1]['host'] = 2
            op = {'reqs': reqs, 'concurrent': n > 1 and rng.random() < 0.6}
            if op['concurrent']:
                gran = sch.choice(['line', 'line', 'ins'])
                hi = 400 if gran == 'line' else 2500
                names = ['T%d' % r['seq'] for r in reqs]
                order = list(names)
                sch.shuffle(order)
                pre = sorted([sch.randint(1, hi), sch.choice(['demote'] + names)] for _ in range(sch.randint(1, 6)))
                op.update({'granularity': gran, 'order': order, 'preempts': pre})
            ops.append(op)
        plan = {'world': 'chain', 'seed': seed, 'config': cfg, 'ops': ops}
        if sch.random() < 0.2:
            # the program builds two applications at the same time (lazy application factories, one per worker thread): this
            # one is parked at some line of its construction while the other one is constructed completely
            plan['conc_build'] = {'other': gen_config(S['other']), 'preempts': [[sch.choice([sch.randint(1, 300), sch.randint(1, 3000), sch.randint(1, 12000)]), 'T1']]}
        return plan

    def extra_plans(self, tier, base_seed):
        """Structured part: a client polls one URL (request #1, then #2 with the same URL) while another client's request
        (#3, other URL values) is served completely at EVERY line boundary of #2 -- on two fixed stacks."""
        def f(req=(), opt=(), prov=()):
            return {'req': list(req), 'opt': list(opt), 'kwreq': [], 'kwopt': [], 'provides': list(prov), 'positional_next': False}
        stacks = [
            {'url': [['a', 'int'], ['b', 'str']], 'resources': ['c'], 'route_resources': ['d'],
             'mws': [{'name': 'M0', 'level': 'app', 'funcs': {'request': f(['request'], ['c'], ['e'])}},
                     {'name': 'M1', 'level': 'route', 'funcs': {'request': f(['a', 'e'], [], ['g']), 'endpoint': f(['b'], ['g'], ['h'])}}],
             'ep': dict(f(['a', 'b', 'g'], ['h', 'c', 'd']), kind='function'), 'rn': dict(f(['context', 'a'], ['e']), kind='function')},
            {'url': [['a', 'optint']], 'resources': [], 'route_resources': [],
             'mws': [{'name': 'M0', 'level': 'route', 'funcs': {'endpoint': f(['a'], [], ['e'])}}],
             'ep': dict(f(['a', 'e', 'request']), kind='method'), 'rn': dict(f(['context'], ['a']), kind='lambda'),
             'decoy': [['dq0', 'optint']]},
        ]
        for cfg in stacks if tier == 'thorough' else stacks[:1]:
            n = self.solo_lines(cfg)
            for k in range(1, n + 1):
                yield {'world': 'chain', 'seed': base_seed, 'config': cfg, 'mode': 'poll-sweep',
                       'ops': [{'reqs': [{'seq': 1, 'kind': 'route'}], 'concurrent': False},
                               {'reqs': [{'seq': 2, 'kind': 'route', 'vseq': 1}, {'seq': 3, 'kind': 'route'}], 'concurrent': True,
                                'granularity': 'line', 'order': ['T2', 'T3'], 'preempts': [[k, 'T3']]}]}

    _SOLO = {}

    def solo_lines(self, cfg):
        key = canon(cfg)
        if key not in self._SOLO:
            hosts = build(cfg, 'cal')
            RT.reset({})
            _, path = url_values(cfg, 1)
            sched = BatonScheduler(['T'], [], 'line', WATCH)
            sched.run({'T': lambda: call_app(hosts[1][0], make_environ('GET', path), validate=False)})
            self._SOLO[key] = sched.steps
        return self._SOLO[key]

    # ------------------------------------------------------------------
    def execute(self, plan):
        res = RunResult()
        cfg = plan['config']
        K = 'C02/'
        try:
            cb = plan.get('conc_build')
            if cb:
                built = {}
                sched0 = BatonScheduler(['T0', 'T1'], cb['preempts'], 'line', WATCH, max_steps=400000)
                sched0.run({'T0': lambda: built.__setitem__('main', build(cfg, 'A')), 'T1': lambda: built.__setitem__('other', build(cb['other'], 'B'))})
                res.fire('preempt', len(sched0.switches))
                if sched0.switches:
                    res.probe('two-applications-constructed-at-the-same-time')
                for name in ('T0', 'T1'):
                    if name in sched0.errors:
                        raise sched0.errors[name]
                hosts = built['main']
            else:
                hosts = build(cfg, 'A')
            app, resources, pattern = hosts[1]
        except Exception as e:
            res.violate(K + 'setup-failed:%s' % type(e).__name__,
                        'resolvable-by-construction stack rejected: %r\n%s' % (e, canon(cfg)))
            return res
        for kind in ('ep', 'rn'):
            res.probe('kind-' + cfg[kind]['kind'])
        if cfg.get('no_render') and cfg['ep']['kind'] == 'varkw':
            res.probe('bare-route-with-catch-all-endpoint')
        if cfg.get('decoy') and cfg.get('route_resources'):
            res.probe('decoy-route-binding-named-like-resource')
        if cfg.get('parent'):
            res.probe('embedded-in-parent-offering-more-names')
        if cfg.get('ep_value', 'dict') != 'dict' and not cfg.get('no_render'):
            res.probe('falsy-render-context')
        if cfg.get('replace_after') and (cfg['resources'] or cfg.get('route_resources')):
            res.probe('callers-dict-changed-after-construction')
        if cfg.get('strip_prefix') and not cfg.get('parent'):
            res.probe('behind-prefix-stripping-wrapper')
        used = set(p for m in cfg['mws'] for f in m['funcs'].values() for p in declared_of(f)) | set(declared_of(cfg['ep'])) | set(declared_of(cfg['rn']))
        if used & set(HAZARD_NAMES):
            res.probe('name-spelled-like-generated-code-identifier')
        RT.reset({})
        for m in cfg['mws']:
            for ph, f in m['funcs'].items():
                if f.get('positional_next'):
                    RT.positional.add('%s.%s' % (m['name'], ph))
                    if len(f['provides']) > 1:
                        res.probe('positional-next-multi')
        envs = {}
        results = {}

        def serve(r):
            RT.set_seq(r['seq'])
            host = r.get('host', 1) if r.get('host', 1) in hosts else 1
            pcfg = cfg.get('parent2') if host == 2 else cfg.get('parent')
            if r['kind'] == 'route':
                _, path = url_values(cfg, r.get('vseq', r['seq']))      # vseq: the same URL as an earlier request (polling)
                path = (pcfg['prefix'] if pcfg else '') + path
            else:
                path = '/nowhere/%d' % r['seq']
            if cfg.get('strip_prefix') and not cfg.get('parent'):
                path = cfg['strip_prefix'] + path
            env = make_environ('GET', path)
            env['sim.seq'] = r['seq']
            envs[r['seq']] = env
            results[r['seq']] = call_app(hosts[host][0], env, validate=False)
        for step, op in enumerate(plan['ops']):
            if op.get('concurrent') and len(op['reqs']) > 1:
                names = ['T%d' % r['seq'] for r in op['reqs']]
                order = [n for n in op.get('order', names) if n in names] + [n for n in names if n not in op.get('order', names)]
                tasks = dict(('T%d' % r['seq'], (lambda r=r: serve(r))) for r in op['reqs'])
                sched = BatonScheduler(order, op.get('preempts', []), op.get('granularity', 'line'), WATCH)
                sched.run(tasks)
                for n, e in sched.errors.items():
                    res.violate(K + 'thread-raised:%s' % type(e).__name__, '%s: %r' % (n, e), step)
                res.fire('preempt', len(sched.switches))
                res.probe('concurrent-batch')
                if any('vseq' in r for r in op['reqs']):
                    res.probe('same-url-as-previous-request-while-another-is-served')
                res.nontrivial = True
                mode = 'conc%d' % len(op['reqs'])
                res.ev(step, 'batch', op.get('granularity'), 'switches', len(sched.switches))
            else:
                for r in op['reqs']:
                    serve(r)
                mode = 'seq'
            for r in op['reqs']:
                host = r.get('host', 1) if r.get('host', 1) in hosts else 1
                if host == 2:
                    res.probe('same-application-embedded-in-second-parent')
                    jcfg = dict(cfg, parent=cfg['parent2'])
                else:
                    jcfg = cfg
                happ, hres, hpattern = hosts[host]
                self.judge(jcfg, happ, hres, hpattern, r, envs[r['seq']], results[r['seq']], res, step, mode)
                if res.violations:
                    return res
        res.steps = sum(len(op['reqs']) for op in plan['ops'])
        res.extra.pop('_objs', None)
        res.extra.pop('_url_lists', None)
        return res

    def judge(self, cfg, app, resources, pattern, r, env, ex, res, step, mode):
        K = 'C02/'
        seq, kind = r['seq'], r['kind']
        calls = RT.calls.get(seq, [])
        embedded = bool(cfg.get('parent'))
        # the harness error renderer answers 200; when embedded, unknown URLs are the PARENT's business (plain 404)
        want_code = 200 if (kind == 'route' or (cfg.get('re') and not embedded)) else 404
        ctx = 'step %d request #%d (%s, %s)' % (step, seq, kind, mode)
        if ex.escaped is not None or ex.code != want_code:
            detail = ex.body[:600].decode('utf8', 'replace')
            res.violate(K + 'request-failed:%s:%s' % (kind, ex.code if ex.escaped is None else type(ex.escaped).__name__),
                        ctx + ' -> %s %r\n%s\nconfig %s' % (ex.status, ex.escaped, detail, canon(cfg)), step)
            return
        urlv, _ = url_values(cfg, r.get('vseq', seq))
        seen_request, seen_ds = [], []
        descr = []
        shape = '%s|%s|%s|%s|%d' % (cfg['ep']['kind'], cfg['rn']['kind'], kind, mode, len(cfg['mws']))
        res.sigs.add(shape)
        for fname, kwargs in calls:
            offer = on_offer(cfg, fname, kind)
            decl = declared(cfg, fname)
            if sorted(kwargs) != sorted(decl):
                res.violate(K + 'undeclared-or-missing-name', ctx + ' %s called with %r, declares %r' % (fname, sorted(kwargs), sorted(decl)), step)
                return
            d = {}
            for p in decl:
                v = kwargs[p]
                src = offer.get(p)
                where = '%s %s(%s)' % (ctx, fname, p)
                if src is None:
                    d[p] = 'DEFAULT'
                    if p in ALL_PROVIDED(cfg):
                        res.probe('default-for-name-provided-elsewhere')
                    if v is not DEFAULT:
                        res.violate(K + 'value-without-source', where + ' got %r although no source offers that name' % (v,), step)
                        return
                    continue
                d[p] = src
                optional = p in self.opt_names(cfg, fname)
                if v is DEFAULT:
                    kwonly = p in self.kwonly_names(cfg, fname)
                    res.violate(K + 'default-shadows-source:%s' % ('kwonly' if kwonly else 'positional'),
                                where + ' received its own default although %s offers it\nconfig %s' % (src, canon(cfg)), step)
                    return
                if optional:
                    res.probe('optional-got-offered-value')
                    res.nontrivial = True
                    if p in self.kwonly_names(cfg, fname):
                        res.probe('kwonly-got-offered-value')
                ok, why = self.source_ok(src, p, v, seq, urlv, resources, app, env,
                                         pattern if kind == 'route' else '/<_ignored*>', seen_request, seen_ds, calls)
                if not ok:
                    res.violate(K + 'wrong-source:%s' % src.split(':')[0], where + ' expected %s, got %r (%s)\nconfig %s'
                                % (src, v, why, canon(cfg)), step)
                    return
            descr.append((fname, sorted(d.items())))
        # a converted URL value that is a container belongs to this request: the application may keep or change it
        # (which the harness now does) without any other request ever seeing that
        lists = res.extra.setdefault('_url_lists', {})
        for fname, kwargs in calls:
            for p, v in kwargs.items():
                if isinstance(v, list) and on_offer(cfg, fname, kind).get(p, '').startswith('url:'):
                    if id(v) in lists and lists[id(v)][0] != seq:
                        res.violate(K + 'url-value-object-shared-between-requests',
                                    ctx + ' %s(%s) got the very list object request #%d got' % (fname, p, lists[id(v)][0]), step)
                        return
                    if id(v) not in lists:
                        lists[id(v)] = (seq, v)
        for oseq, v in list(lists.values()):
            if oseq == seq and not (v and v[-1] == 'kept-and-changed-by-the-application'):
                v.append('kept-and-changed-by-the-application')
                res.probe('url-list-value-mutated-after-request')
        # per-request objects are never shared between two requests
        glob = res.extra.setdefault('_objs', {})
        for o in seen_request[:1] + seen_ds[:1]:
            if id(o) in glob and glob[id(o)][0] != seq:
                res.violate(K + 'per-request-object-shared', ctx + ' got the %s of request #%d' % (type(o).__name__, glob[id(o)][0]), step)
                return
            glob[id(o)] = (seq, o)
        if kind == 'null':
            res.probe('null-route-defaults')
            if cfg.get('re'):
                res.probe('render-error-injected')
        if any(t == 'multi' for _, t in cfg['url']) and kind == 'route':
            res.probe('multi-url-value')
        if kind == 'route':
            for u, t in cfg['url']:
                if t.startswith('opt') and t != 'optmulti':
                    res.probe('optional-url-binding-' + ('absent' if urlv[u] is None else 'zero' if urlv[u] in (0, '0') else 'present'))
                if t in ('int', 'float') and urlv[u] == 0:
                    res.probe('url-value-zero')
                if t == 'optmulti' and urlv[u] == []:
                    res.probe('multi-url-binding-empty')
        # which functions must have run
        must = self.must_run(cfg, kind)
        got = [f for f, _ in calls]
        if got != must:
            res.violate(K + 'functions-run', ctx + ' ran %r, expected %r' % (got, must), step)
            return
        res.ev(step, 'req', seq, kind, ex.code, 'calls', len(calls), hashlib.sha1(canon(descr).encode()).hexdigest()[:12])

    @staticmethod
    def opt_names(cfg, fname):
        f = cfg['re'] if fname == 'RE' else cfg['ep'] if fname == 'EP' else cfg['rn'] if fname == 'RN' else \
            [m for m in cfg['mws'] if m['name'] == fname.split('.')[0]][0]['funcs'][fname.split('.')[1]]
        return set(f['opt']) | set(f['kwopt'])

    @staticmethod
    def kwonly_names(cfg, fname):
        f = cfg['re'] if fname == 'RE' else cfg['ep'] if fname == 'EP' else cfg['rn'] if fname == 'RN' else \
            [m for m in cfg['mws'] if m['name'] == fname.split('.')[0]][0]['funcs'][fname.split('.')[1]]
        return set(f['kwreq']) | set(f['kwopt'])

    @staticmethod
    def must_run(cfg, kind):
        if kind != 'route' and cfg.get('parent'):
            return []       # the parent's catch-all route: none of the embedded application's functions run
        chain = [m for m in cfg['mws'] if m['level'] == 'app']
        if kind == 'route':
            chain += [m for m in cfg['mws'] if m['level'] == 'route']
        out = [m['name'] + '.request' for m in chain if 'request' in m['funcs']]
        out += [m['name'] + '.endpoint' for m in chain if 'endpoint' in m['funcs']]
        if kind == 'route' and cfg.get('no_render'):
            out += ['EP']
        elif kind == 'route':
            out += ['EP'] + [m['name'] + '.render' for m in chain if 'render' in m['funcs']] + ['RN']
        elif cfg.get('re'):
            out += ['RE']        # the 404 of the catch-all route is rendered by the handler's render_error
        return out

    @staticmethod
    def source_ok(src, p, v, seq, urlv, resources, app, env, pattern, seen_request, seen_ds, calls):
        kind, _, rest = src.partition(':')
        if kind == 'url':
            exp = urlv[p]
            return (type(v) is type(exp) and v == exp), 'converted URL segment of THIS request is %r' % (exp,)
        if kind == 'res':
            return v is resources[p], 'must be the very object registered as the resource'
        if kind == 'prov':
            provider, name = rest.split(':')
            return v == ('prov', seq, provider, name), 'value handed to next() by %s in THIS request' % provider
        if rest == 'request':
            seen_request.append(v)
            if getattr(v, 'environ', None) is not env:
                return False, "request.environ is not this exchange's environ"
            return all(x is seen_request[0] for x in seen_request), 'one request object per exchange'
        if rest == '_application':
            return v is app, 'the serving application'
        if rest == '_route':
            return isinstance(v, BoundRoute) and v.pattern == pattern, 'the bound route with pattern %r' % pattern
        if rest == '_dispatch_state':
            seen_ds.append(v)
            return isinstance(v, DispatchState) and all(x is seen_ds[0] for x in seen_ds), 'one dispatch state per request'
        if rest == '_error':
            from clastic.errors import NotFound
            return isinstance(v, NotFound), 'the error being rendered (a NotFound)'
        if rest == 'context':
            # the very object the endpoint of THIS request returned
            mine = [o for o in RT.created.get(seq, []) if RT.labels.get(id(o), '').startswith('ctx:EP#')]
            return any(v is o for o in mine), 'the object the endpoint returned in this request (got %s)' % RT.labels.get(id(v))
        return False, 'unknown source'

    def simplify(self, plan):
        for i, op in enumerate(plan['ops']):
            if op.get('concurrent'):
                c = dict(plan)
                c['ops'] = [dict(o) for o in plan['ops']]
                c['ops'][i]['concurrent'] = False
                yield c
        for kind in ('ep', 'rn'):
            if plan['config'][kind]['kind'] != 'function':
                c = dict(plan)
                c['config'] = dict(plan['config'])
                c['config'][kind] = dict(plan['config'][kind], kind='function')
                yield c


CHECK = C02()
