"""C18 -- the meta application never reveals secrets and always renders
(meta world: stubbed host, system-call failures swept per call site).

plan = {config: {resources:[{name, kind}], inner_resources:[...], routes:[kind...], cookie:bool, prefix, depth},
        ops: [{view:'html'|'json', faults:{site:{'raise':exc}|{'value':i}}}]}
"""
import html
import json
import os

import clastic.meta as cmeta
from clastic import Application, Response, Route, render_basic, GET, POST
from clastic.meta import MetaApplication
from clastic.middleware.cookie import SignedCookieMiddleware
from clastic.middleware import GzipMiddleware
from clastic.middleware.stats import StatsMiddleware
from clastic.static import StaticApplication

from sim.core.base import Check, RunResult, Streams, InvalidPlan, HarnessError, canon
from sim.core.gateway import make_environ, call_app
from sim.core.seams import Seams, SimClock
from sim.core.hoststub import HostStub, SITES
from sim.core.sched import BatonScheduler
from sim.core import runner
from sim.props.c02 import wrap_kind

SECRET_NAMES = ['secret', 'secret_key', 'my_secret', 'db_secret_pw', 'apisecretkey', 'x.secret.y', 'secret-with-dash', 'a secret <b>',
                'n' * 66 + '_secret', 'very_long_' * 9 + 'secret_at_the_end', 'secret' + '_padding' * 12]
PLAIN_NAMES = ['token_ttl', 'db_url', 'debug', 'name', 'greeting', 'limits', 'weird <i>name</i>', 'page_title', '_meta_start_time',
               'script_root_other', 'resources', 'exc_content', 'SECRET_UPPER_IS_NOT_secretive'.replace('secret', 'zzz')]
VALUE_KINDS = ['float1', 'true', 'int1', 'tuple-bool', 'tuple-int', 'str', 'bytes', 'number', 'list', 'dict', 'object', 'nested', 'longstr', 'tuple0', 'tuple1', 'tuple2', 'tuple2', 'namedtuple',
               'percent']
COOKIE_KEY = b'C00KIE-SIGNING-KEY-7781'
ROUTE_KINDS = ['function', 'lambda', 'method', 'callable', 'static', 'classmethod', 'decorated']


def _host_mws():
    from clastic.middleware.context import SimpleContextProcessor, ContextProcessor
    from clastic.middleware.url import ScriptRootMiddleware
    from clastic.middleware import GetParamMiddleware, HTTPCacheMiddleware, SimpleProfileMiddleware
    from clastic.middleware.form import PostDataMiddleware
    # any middleware a host may carry -- including ones of the very types the meta application uses itself
    class BadReprMiddleware(SimpleProfileMiddleware):
        """a host middleware whose repr() raises: the middleware section cannot be computed"""
        def __repr__(self):
            raise RuntimeError('no repr for you')
    return {'ctxproc-overwrite-host': lambda: ContextProcessor(defaults={'host': 'www.example.org', 'proc': 'web-1'}, overwrite=True),
            'simplectx-sections': lambda: SimpleContextProcessor('sections', 'general', 'title'),
            # site-wide template data of the host, under names the meta page happens to use for its own working lists
            'ctxproc-sections': lambda: ContextProcessor(defaults={'sections': ('nav', 'footer'), 'general': None, 'app': None, 'host': 0}),
            'badrepr-mw': lambda: BadReprMiddleware(), 'simplectx': lambda: SimpleContextProcessor(), 'simplectx-named': lambda: SimpleContextProcessor('host_value'),
            'ctxproc': lambda: ContextProcessor(defaults={'host_default': 1}), 'scriptroot-other': lambda: ScriptRootMiddleware('host_root'),
            'getparam': lambda: GetParamMiddleware(['hq']), 'postdata': lambda: PostDataMiddleware(['hp']),
            'cache': lambda: HTTPCacheMiddleware(), 'profile': lambda: SimpleProfileMiddleware()}


HOST_MWS = _host_mws()


def _exotic():
    import re
    import decimal
    import datetime

    def ep_exotic_defaults(request, x, pattern=re.compile('a|b'), amount=decimal.Decimal('1.50'), tags=frozenset(['t']),
                           when=datetime.datetime(2020, 1, 2, 3, 4, 5), blob=b'\xff\x00', callback=len, sentinel=object(), kind=dict):
        return Response('exotic')
    return ep_exotic_defaults


ep_exotic_defaults = _exotic()


class ReprHolder(object):
    def __init__(self, text):
        self.text = text

    def __repr__(self):
        return '<Holder %s>' % self.text


class BadRepr(object):
    def __repr__(self):
        raise RuntimeError('repr failed')


# secret-named resources whose VALUE is next to nothing (an unset password, a one-letter flag): nothing to disclose, and
# nothing that may disturb how the OTHER resources are shown
DEGENERATE = {'emptystr': '', 'emptybytes': b'', 'onechar': 'l', 'onebyte': b'e', 'space': ' '}
FLAKY = {'broken': False}


class FlakyRepr(object):
    """A resource that cannot describe itself for a while (a connection pool before the database is up) and can later."""

    def __init__(self, text):
        self.text = text

    def __repr__(self):
        if FLAKY['broken']:
            raise RuntimeError('repr failed')
        return '<pool %s>' % self.text


class BadReprQuoting(object):
    """repr() fails -- and the error text quotes the value (like int(value, 16) on a token does)"""
    def __init__(self, text):
        self.text = text

    def __repr__(self):
        raise ValueError('invalid literal for int() with base 16: %r' % self.text)


class BadReprSurrogate(object):
    """repr() fails with a message no UTF-8 encoder accepts (an os.fsdecode()d file name in it)"""
    def __repr__(self):
        raise OSError(2, 'No such file or directory', 'caf\udce9.conf')


class _Unprintable(Exception):
    def __str__(self):
        raise RuntimeError('even describing this error fails')


class BadReprBadStr(object):
    """repr() fails with an exception whose own str() fails"""
    def __repr__(self):
        raise _Unprintable()


class BadReprSelf(object):
    """repr() fails with an exception that carries the object itself (raise ValueError(self)): describing the ERROR fails too"""
    def __repr__(self):
        raise ValueError(self)


class BadReprHTTP(object):
    """repr() fails with an exception that happens to be an HTTP error class"""
    def __repr__(self):
        from clastic.errors import ServiceUnavailable
        raise ServiceUnavailable('backend down')


def make_value(kind, marker):
    if kind == 'str':
        return marker
    if kind in DEGENERATE:
        return DEGENERATE[kind]
    if kind == 'bytes':
        return marker.encode()
    if kind == 'number':
        return int(''.join(str(ord(c) % 10) for c in marker)[:18])
    if kind == 'list':
        return [1, marker, 2]
    if kind == 'dict':
        return {'k': marker}
    if kind == 'object':
        return ReprHolder(marker)
    if kind == 'nested':
        return {'a': [{'b': (marker,)}]}
    if kind == 'longstr':
        return marker + '-' + 'x' * 200
    if kind == 'badrepr':
        return BadRepr()
    if kind == 'flaky':
        return FlakyRepr(marker)
    if kind == 'badrepr-http':
        return BadReprHTTP()
    if kind == 'badrepr-quoting':
        return BadReprQuoting(marker)
    if kind == 'badrepr-surrogate':
        return BadReprSurrogate()
    if kind == 'badrepr-self':
        return BadReprSelf()
    if kind == 'badrepr-badstr':
        return BadReprBadStr()
    if kind in EXACT:
        return EXACT[kind]
    if kind == 'tuple0':
        return ()
    if kind == 'tuple1':
        return (marker,)
    if kind == 'tuple2':
        return (marker, 2)
    if kind == 'namedtuple':
        import collections
        return collections.namedtuple('Limits', 'label n')(marker, 3)
    if kind == 'percent':
        return '100%s %(x)d ' + marker
    raise InvalidPlan('unknown value kind')


# values that compare (and hash) equal although they are different things: each must be shown as ITSELF
EXACT = {'float1': 1.0, 'true': True, 'int1': 1, 'tuple-bool': (False, True), 'tuple-int': (0, 1)}


def marker_forms(kind, marker):
    """Strings whose presence in a page would disclose the value."""
    if kind == 'number':
        return [str(make_value(kind, marker))]
    return [marker]


CONC_WATCH = (os.path.join(runner.REPO, 'clastic') + os.sep, '<sinter')


class C18(Check):
    id = 'C18'
    world = 'meta'
    level = 'fault_enumeration'
    design_ref = 'DESIGN.md 3.11'
    runs = {'quick': 600, 'thorough': 15000}
    shrink_lists = (('ops',), ('conc', 'ks'), ('config', 'resources'), ('config', 'routes'))
    rule = ('host applications with generated resources (names with "secret" as prefix/infix/suffix and without; values str, bytes, '
            'numbers, containers, objects whose repr contains the value or raises), routes of every endpoint kind, static and '
            'embedded applications, middlewares incl. SignedCookie with a known key; meta mounted at a generated prefix, also two '
            'levels deep; HTML and JSON views requested under host-call fault plans: every call site x every documented exception / '
            'unusual legal value swept singly on a fixed host (structured part), sampled single/multiple faults on generated hosts, '
            'fault-free runs separate. Non-trivial: request with >= 1 fault fired; distinct = (view, fired fault set kind, depth).')
    assumptions = ('host facts are stubs: a failure is what the call is documented to raise, never an impossible return type',
                   "'secret' is matched case-sensitively, as the property states (lower case)",
                   'page well-formedness / escaping is not judged (not part of C18)')
    components = {'real': ['clastic.meta (MetaApplication, all peripherals, ashes templates)', 'render_json', 'clastic dispatch', 'glom'],
                  'stub': ['os / socket / platform / resource / getpass / sysconfig / sys calls (HostStub)', 'clock', 'WSGI server/client']}
    level_text = ('Single host-call faults are enumerated completely (every call site x every documented exception and unusual '
                  'value, both views) on a fixed host; host applications and multi-fault plans are sampled.')
    level_note = 'Trusted: the catalogue of what each host call can raise/return (sim/core/hoststub.py).'
    required_probes = ('meta-pages-under-other-interpreter-flags', 'secret-named-resource-with-a-next-to-empty-value', 'failure-report-compared-with-a-fresh-twin', 'section-computable-again-after-it-failed', 'two-clients-on-a-fresh-host', 'host-context-processor-requires-a-secret-resource', 'endpoint-with-unserialisable-defaults', 'equal-but-different-values-listed', 'cookie-key-given-as-text', 'tuple-valued-resource', 'secret-resource-with-failing-repr', 'host-context-names-clash-with-meta-working-names', 'sibling-section-cannot-be-computed', 'host-shares-middleware-type-with-meta', 'secret-redacted-html', 'secret-redacted-json', 'fault-fired-page-200', 'all-calls-failing', 'depth-2',
                       'plain-visible', 'bad-repr-section-inline', 'cookie-mw-present')

    # ---- generation --------------------------------------------------------
    def gen_config(self, rng):
        def resources(nmax):
            out = []
            names = rng.sample(SECRET_NAMES, rng.randint(0, 3)) + rng.sample(PLAIN_NAMES, rng.randint(0, 3))
            rng.shuffle(names)
            for n in names[:nmax]:
                kind = rng.choice(VALUE_KINDS)
                if n in PLAIN_NAMES and rng.random() < 0.1:
                    kind = 'flaky'
                elif n in PLAIN_NAMES and rng.random() < 0.15:
                    kind = rng.choice(['badrepr', 'badrepr-http', 'badrepr-quoting', 'badrepr-surrogate', 'badrepr-badstr', 'badrepr-self', 'badrepr-self'])
                elif n in SECRET_NAMES and rng.random() < 0.15:
                    kind = rng.choice(sorted(DEGENERATE))
                elif n in SECRET_NAMES and rng.random() < 0.2:
                    # a secret whose repr() would fail: nobody has any business calling it
                    kind = rng.choice(['badrepr', 'badrepr-quoting', 'badrepr-quoting'])
                out.append({'name': n, 'kind': kind})
            return out
        return {'resources': resources(5), 'inner_resources': resources(3),
                'routes': [rng.choice(ROUTE_KINDS) for _ in range(rng.randint(0, 4))],
                'renders': rng.choice(['none', 'basic', 'callable', 'pathlike']),
                'cookie': rng.choice([False, False, True, 'str']), 'extra_mws': rng.random() < 0.4,
                'host_mws': rng.sample(sorted(HOST_MWS), rng.randint(0, 3)),
                'prefix': rng.choice(['/_meta/', '/m', '/deep/er/meta/', '/']), 'depth': rng.choice([1, 1, 2]),
                'static': rng.random() < 0.3, 'embedded': rng.random() < 0.4, 'exotic_defaults': rng.random() < 0.4,
                'ctx_requires': rng.random() < 0.3}

    def gen_faults(self, rng, n):
        sites = sorted(s for s in SITES if SITES[s][1] or SITES[s][2])
        out = {}
        for s in rng.sample(sites, min(n, len(sites))):
            _, excs, unusual = SITES[s]
            if excs and (not unusual or rng.random() < 0.6):
                out[s] = {'raise': rng.choice(excs)}
            else:
                out[s] = {'value': rng.randrange(len(unusual))}
        return out

    def generate(self, seed, tier):
        S = Streams(seed)
        cfg = self.gen_config(S['config'])
        rng, frng = S['ops'], S['faults']
        ops = []
        fault_free = frng.random() < 0.2
        for _ in range(rng.randint(4, 12)):
            n = 0 if fault_free else frng.choice([0, 1, 1, 2, 3, 6, 40])
            ops.append({'view': rng.choice(['html', 'json']), 'faults': self.gen_faults(frng, n)})
            if any(r['kind'] == 'flaky' for r in cfg['resources']):
                # (a resource that cannot describe itself during some requests and can during the others)
                ops[-1]['flaky_broken'] = rng.random() < 0.4
        return {'world': 'meta', 'seed': seed, 'config': cfg, 'ops': ops}

    def extra_plans(self, tier, base_seed):
        cfg = {'resources': [{'name': 'secret_key', 'kind': 'str'}, {'name': 'db_secret_pw', 'kind': 'object'},
                             {'name': 'greeting', 'kind': 'str'}, {'name': 'limits', 'kind': 'dict'}],
               'inner_resources': [{'name': 'my_secret', 'kind': 'bytes'}], 'routes': ['function', 'callable', 'decorated'],
               'renders': 'basic', 'cookie': True, 'extra_mws': True, 'prefix': '/_meta/', 'depth': 2, 'static': True, 'embedded': True}
        ops = []
        for site in sorted(SITES):
            _, excs, unusual = SITES[site]
            for e in excs:
                for view in ('html', 'json'):
                    ops.append({'view': view, 'faults': {site: {'raise': e}}})
            for i in range(len(unusual)):
                for view in ('html', 'json'):
                    ops.append({'view': view, 'faults': {site: {'value': i}}})
        # everything failing at once, per exception family
        for exc in ('OSError', 'KeyError', 'AttributeError', 'ValueError'):
            allf = dict((s, {'raise': exc}) for s in SITES if SITES[s][1])
            for view in ('html', 'json'):
                ops.append({'view': view, 'faults': allf})
        for k in range(0, len(ops), 60):
            yield {'world': 'meta', 'seed': base_seed, 'config': cfg, 'ops': ops[k:k + 60], 'sweep': True}
        # the host runs in an interpreter started with other flags (optimisation levels strip asserts and docstrings)
        for flags in ([['-OO'], ['-O']] if tier == 'quick' else [['-OO'], ['-O'], ['-X', 'utf8'], ['-OO', '-X', 'utf8'], ['-X', 'dev'], ['-s', '-OO']]):
            yield {'world': 'meta', 'seed': base_seed, 'config': cfg, 'ops': [], 'interp': {'flags': flags, 'prefix': '/_meta/'}}
        # two clients at once on a freshly built host (a threaded server's first moments): client A is parked at its k-th
        # line inside the framework, client B is served completely, then A goes on -- for every k (quick: every 3rd / 8th)
        for va, vb, stride in (('json', 'json', 3), ('html', 'json', 8), ('json', 'html', 8), ('html', 'html', 8)):
            n = self.conc_steps(cfg, va)
            ks = list(range(1, n + 1, stride if tier == 'quick' else 1))
            for j in range(0, len(ks), 20):
                yield {'world': 'meta', 'seed': base_seed, 'config': cfg, 'ops': [], 'conc': {'views': [va, vb], 'ks': ks[j:j + 20]}}

    INTERP_SCRIPT = r'''
import json, sys
out = {'stage': 'import'}
try:
    spec = json.loads(sys.stdin.read())
    sys.path.insert(0, spec['repo'])
    import warnings
    warnings.simplefilter('ignore')
    from clastic import Application, Response
    from clastic.meta import MetaApplication
    out['stage'] = 'construct'
    app = Application([('/', lambda: Response('hello')), (spec['prefix'], MetaApplication())], resources=spec['resources'])
    out['stage'] = 'request'
    from werkzeug.test import Client
    pages = {}
    for view, path in (('html', spec['prefix']), ('json', spec['prefix'] + 'json/')):
        r = Client(app, Response).get(path)
        pages[view] = [r.status_code, r.get_data().decode('utf8', 'replace')]
    out = {'stage': 'done', 'pages': pages}
except BaseException as e:
    out['error'] = '%s: %s' % (type(e).__name__, e)
sys.stdout.write(json.dumps(out))
'''

    def execute_interp(self, plan):
        import subprocess
        import sys
        res = RunResult()
        spec = plan['interp']
        env = dict(os.environ)
        env.pop('PYTHONOPTIMIZE', None)
        env.pop('SIM_STAGE', None)
        resources = {'secret_key': 'S3CR3T-interp-1-VALUE', 'db_secret_pw': 'S3CR3T-interp-2-VALUE', 'greeting': 'PLAINV-interp-3-VALUE', 'limits': 'PLAINV-interp-4-VALUE'}
        p = subprocess.run([sys.executable] + spec['flags'] + ['-c', self.INTERP_SCRIPT], env=env, timeout=120, stdout=subprocess.PIPE, stderr=subprocess.PIPE,
                           input=json.dumps({'repo': os.path.abspath(os.environ.get('VERIF_REPO', '/repo')), 'prefix': spec['prefix'], 'resources': resources}).encode('ascii'))
        res.steps = 1
        res.nontrivial = True
        res.fire('interpreter_flags:' + ' '.join(spec['flags']))
        res.probe('meta-pages-under-other-interpreter-flags')
        res.sigs.add('interp|%s' % ' '.join(spec['flags']))
        try:
            out = json.loads(p.stdout.decode('utf8'))
        except ValueError:
            raise HarnessError('interpreter %s gave no result: rc=%s %s' % (spec['flags'], p.returncode, p.stderr[-400:].decode('utf8', 'replace')))
        res.ev('interp', ' '.join(spec['flags']), out['stage'], out.get('error', '')[:80])
        ctx = 'python %s: host with 4 resources, meta at %s' % (' '.join(spec['flags']), spec['prefix'])
        if out['stage'] != 'done':
            res.violate('C18/interpreter-flags/meta-not-available@%s' % out['stage'], ctx + ' -> %s' % out.get('error'))
            return res
        serving = dict((n, ('str', v)) for n, v in resources.items())
        for view in ('html', 'json'):
            code, body = out['pages'][view]
            if code != 200:
                res.violate('C18/interpreter-flags/page-status-%s:%s' % (code, view), ctx + ' -> %s' % code)
                return res
            if 'S3CR3T' in body:
                res.violate('C18/interpreter-flags/secret-disclosed:%s' % view, ctx)
                return res
            bad = self.check_resources(view, body, serving, res)
            if bad:
                res.violate('C18/interpreter-flags/' + bad[0] + ':' + view, ctx + ' -> ' + bad[1])
                return res
        return res

    _CONC_N = {}

    def conc_steps(self, cfg, view):
        key = (canon(cfg), view)
        if key not in self._CONC_N:
            try:
                stub = HostStub(clock=SimClock())
                with Seams() as sm:
                    stub.install(sm, cmeta)
                    stub.set_faults({})
                    app, base, _, _ = self.build(cfg, decoy=False)
                    s = BatonScheduler(['T0'], [], 'line', CONC_WATCH)
                    s.run({'T0': lambda: call_app(app, make_environ('GET', base + ('json/' if view == 'json' else ''), headers={'Accept': 'text/html'}))})
                self._CONC_N[key] = max(s.steps, 10)
            except Exception:
                self._CONC_N[key] = 400      # (the plans are made all the same: what goes wrong is the executor's to report)
        return self._CONC_N[key]

    def execute_conc(self, plan):
        res = RunResult()
        cfg = plan['config']
        K = 'C18/'
        va, vb = plan['conc']['views']
        stub = HostStub(clock=SimClock())
        with Seams() as sm:
            stub.install(sm, cmeta)
            stub.set_faults({})
            for k in plan['conc']['ks']:
                try:
                    app, base, secrets, serving = self.build(cfg, decoy=False)        # nobody has called it yet
                except Exception as e:
                    res.violate(K + 'setup-failed:%s' % type(e).__name__, '%r %s' % (e, canon(cfg)))
                    return res
                got = {}

                def task(name, view):
                    def run():
                        got[name] = call_app(app, make_environ('GET', base + ('json/' if view == 'json' else ''), headers={'Accept': 'text/html'}))
                    return run
                sched = BatonScheduler(['T0', 'T1'], [[k, 'T1']], 'line', CONC_WATCH)
                sched.run({'T0': task('T0', va), 'T1': task('T1', vb)})
                res.steps += 1
                res.fire('preempt', len(sched.switches))
                if sched.switches:
                    res.nontrivial = True
                    res.probe('two-clients-on-a-fresh-host')
                res.sigs.add('conc|%s|%s|%s' % (va, vb, sched.switches[0][3] if sched.switches else '-'))
                res.ev('conc', va, vb, k, 'switches', len(sched.switches))
                for name, view in (('T0', va), ('T1', vb)):
                    ctx = 'two clients on a fresh host: %s (%s view) parked at its line %d while %s (%s view) is served' % ('T0', va, k, 'T1', vb)
                    if name in sched.errors:
                        res.violate(K + 'conc/thread-raised:%s' % type(sched.errors[name]).__name__, ctx + ' -> %r' % (sched.errors[name],))
                        return res
                    ex = got[name]
                    if ex.escaped is not None:
                        res.violate(K + 'conc/exception-escaped:%s' % type(ex.escaped).__name__, ctx + ' -> %s: %r' % (name, ex.escaped))
                        return res
                    if ex.code != 200:
                        res.violate(K + 'conc/page-status-%s:%s' % (ex.code, view), ctx + ' -> %s: %s' % (name, ex.status))
                        return res
                    body = ex.body.decode('utf8', 'replace')
                    if [m for m in secrets if m in body] or COOKIE_KEY.decode() in body:
                        res.violate(K + 'conc/secret-disclosed:%s' % view, ctx + ' -> the page of %s contains a secret value' % name)
                        return res
                    bad = self.check_resources(view, body, serving, res)
                    if bad:
                        res.violate(K + 'conc/' + bad[0] + ':' + view, ctx + ' -> %s: %s' % (name, bad[1]))
                        return res
        return res

    # ---- execution ---------------------------------------------------------
    def build(self, cfg, decoy=True):
        self._degenerate = False
        secrets = []    # (marker forms) of every secret-named resource at any level
        serving = {}    # resources of the serving (outermost) application: name -> (kind, marker)
        n = [0]

        def res_dict(specs, level):
            out = {}
            for r in specs:
                n[0] += 1
                marker = ('S3CR3T' if 'secret' in r['name'] else 'PLAINV') + '-%s-%d-VALUE' % (level, n[0])
                out[r['name']] = make_value(r['kind'], marker)
                if 'secret' in r['name'] and r['kind'] in DEGENERATE:
                    self._degenerate = True
                elif 'secret' in r['name']:
                    # any recognisable part of the value counts: the distinctive head of the marker
                    secrets.extend(f[:12] if r['kind'] == 'number' else f[:6] for f in marker_forms(r['kind'], marker))
                yield_info[(level, r['name'])] = (r['kind'], marker)
            return out
        yield_info = {}
        routes = []
        for i, kind in enumerate(cfg['routes']):
            # (defaulted parameters nobody provides: their defaults are arbitrary Python objects)
            spec = {'req': ['request'], 'opt': ['page_size'] if i % 2 else [], 'kwreq': [], 'kwopt': ['mode'] if i % 3 == 0 else [], 'kind': kind}
            ep = wrap_kind(spec, 'EP%d' % i, 'resp')
            render = {'none': None, 'basic': render_basic, 'callable': ReprCallableRender(), 'pathlike': None}[cfg['renders']]
            routes.append(Route('/r%d/<x>' % i, ep, render))
        if cfg['renders'] == 'pathlike':
            # the host names its templates by path OBJECTS and has a render factory making renderers of them
            import pathlib
            routes.append(Route('/tmpl/<x>', lambda x: {'x': x}, pathlib.PurePosixPath('pages/item.html')))
        if cfg.get('exotic_defaults'):
            routes.append(('/exotic/<x>', ep_exotic_defaults))
        if cfg.get('static'):
            routes.append(('/assets/', StaticApplication(cmeta._ASSET_PATH)))
        mws = []
        if cfg.get('cookie'):
            # the key as bytes or as text: both are accepted
            mws.append(SignedCookieMiddleware(secret_key=COOKIE_KEY.decode() if cfg.get('cookie') == 'str' else COOKIE_KEY))
        if cfg.get('extra_mws'):
            mws += [GzipMiddleware(), StatsMiddleware()]
        for name in cfg.get('host_mws', []):
            mws.append(HOST_MWS[name]())
        if cfg.get('ctx_requires'):
            # the host's own pages get some of its resources in every render context (site name, API keys for widgets...):
            # a context processor REQUIRING them -- it runs for the embedded meta application's pages, too
            from clastic.middleware.context import ContextProcessor
            import re as _re
            names = [r['name'] for r in cfg['resources'] if _re.match(r'^[A-Za-z_][A-Za-z0-9_]*$', r['name'])
                     and r['name'] not in ('page_title', '_meta_start_time', 'resources')]
            if names:
                mws.append(ContextProcessor(required=sorted(names)))
                self._ctx_required = sorted(names)
        meta = MetaApplication()
        # (never for the 'conc' plans: they are about the very first requests a MetaApplication object sees)
        self._decoy = decoy and len(cfg['resources']) % 2 == 0
        if self._decoy:
            # round 14: the SAME MetaApplication object is first mounted in another host of the process (no secrets
            # there) and viewed once, then in the host under test (decided by a value that exists anyway: no extra draw)
            decoy = Application([('/', lambda: Response('decoy')), ('/m/', meta)], resources={'public_name': 'decoy-value', 'plain': 7})
            for path in ('/m/', '/m/json/'):
                call_app(decoy, make_environ('GET', path, headers={'Accept': 'text/html'}))
        rf_kw = {}
        if cfg['renders'] == 'pathlike':
            rf_kw['render_factory'] = lambda arg: (lambda context: Response('rendered with %s' % (arg,)))
        prefix = cfg['prefix']
        inner_res = res_dict(cfg['inner_resources'], 'inner')
        outer_res = res_dict(cfg['resources'], 'outer')
        if cfg['depth'] == 1:
            if cfg.get('embedded'):
                routes.append(('/emb', Application([('/e', lambda: Response('e'))], resources=inner_res)))
            app = Application(routes + [(prefix, meta)], resources=outer_res, middlewares=mws, **rf_kw)
            base = prefix
        else:
            mid = Application(routes + [(prefix, meta)], resources=inner_res, **rf_kw)
            app = Application([('/host1', mid)], resources=outer_res, middlewares=mws)
            base = '/host1' + (prefix if prefix != '/' else '/')
        for (level, name), (kind, marker) in yield_info.items():
            if level == 'outer':
                serving[name] = (kind, marker)
        base = base if base.endswith('/') else base + '/'
        return app, base, secrets, serving

    def execute(self, plan):
        if plan.get('conc'):
            return self.execute_conc(plan)
        if plan.get('interp'):
            return self.execute_interp(plan)
        res = RunResult()
        cfg = plan['config']
        K = 'C18/'
        stub = HostStub(clock=SimClock())
        with Seams() as sm:
            stub.install(sm, cmeta)
            try:
                app, base, secrets, serving = self.build(cfg)
            except Exception as e:
                res.violate(K + 'setup-failed:%s' % type(e).__name__, '%r %s' % (e, canon(cfg)))
                return res
            if cfg.get('cookie'):
                res.probe('cookie-mw-present')
            if cfg.get('cookie') == 'str':
                res.probe('cookie-key-given-as-text')
            if set(cfg.get('host_mws', [])) & set(['simplectx-sections', 'ctxproc-sections']):
                res.probe('host-context-names-clash-with-meta-working-names')
            if set(cfg.get('host_mws', [])) & set(['simplectx', 'simplectx-named']):
                res.probe('host-shares-middleware-type-with-meta')
            if 'badrepr-mw' in cfg.get('host_mws', []):
                res.probe('sibling-section-cannot-be-computed')
            if self._degenerate:
                res.probe('secret-named-resource-with-a-next-to-empty-value')
            if cfg['depth'] == 2:
                res.probe('depth-2')
            if self._decoy:
                res.probe('meta-object-first-mounted-in-another-host')
            if cfg.get('exotic_defaults'):
                res.probe('endpoint-with-unserialisable-defaults')
            if cfg.get('ctx_requires') and any('secret' in r['name'] and r['name'].replace('_', 'a').isalnum() for r in cfg['resources']):
                res.probe('host-context-processor-requires-a-secret-resource')
            for step, op in enumerate(plan['ops']):
                FLAKY['broken'] = bool(op.get('flaky_broken'))
                if step and not FLAKY['broken'] and plan['ops'][step - 1].get('flaky_broken'):
                    res.probe('section-computable-again-after-it-failed')
                stub.set_faults(op['faults'])
                path = base + ('json/' if op['view'] == 'json' else '')
                ex = call_app(app, make_environ('GET', path, headers={'Accept': 'text/html'}))
                fired = sorted(set(stub.fired))
                for f in fired:
                    res.fire(f)
                nfail = len([f for f in fired if f.startswith('syscall_fails')])
                res.ev(step, op['view'], 'faults', len(op['faults']), 'fired', len(fired), '->', ex.code)
                fkind = 'none' if not fired else (fired[0] if len(fired) == 1 else 'multi%d' % min(len(fired), 10))
                if fired:
                    res.nontrivial = True
                    res.sigs.add('%s|%s|%d' % (op['view'], fkind, cfg['depth']))
                ctx = 'step %d GET %s faults=%s fired=%s' % (step, path, canon(op['faults'])[:300], fired[:6])
                site = fired[0].split(':', 1)[1] if len(fired) == 1 else ('multi' if fired else 'nofault')
                if ex.escaped is not None:
                    res.violate(K + 'exception-escaped:%s@%s' % (type(ex.escaped).__name__, site), ctx + ' -> %r' % (ex.escaped,), step)
                    break
                if ex.code != 200:
                    res.violate(K + 'page-status-%s:%s@%s' % (ex.code, op['view'], site), ctx + ' -> %s\n%s' % (ex.status, ex.body[:600].decode('utf8', 'replace')), step)
                    break
                if fired:
                    res.probe('fault-fired-page-200')
                if sum(1 for f in op['faults'].values() if 'raise' in f) >= 10 and nfail >= 3:
                    res.probe('all-calls-failing')      # every host call that can fail does (the first failure ends a section)
                body = ex.body.decode('utf8', 'replace')
                # --- secrets -------------------------------------------------------
                leaked = [m for m in secrets if m in body]
                if leaked:
                    res.violate(K + 'secret-disclosed:%s' % op['view'], ctx + ' -> the page contains the value of a secret-named resource (%s)' % leaked[0][:12], step)
                    break
                if cfg.get('cookie') and (COOKIE_KEY.decode() in body):
                    res.violate(K + 'cookie-key-disclosed:%s' % op['view'], ctx, step)
                    break
                # --- redaction markers / visibility of the serving application's resources ---
                now = dict((n, (('badrepr' if FLAKY['broken'] else 'flaky-ok') if k == 'flaky' else k, m)) for n, (k, m) in serving.items())
                bad = self.check_resources(op['view'], body, now, res)
                if bad:
                    res.violate(K + bad[0] + ':' + op['view'], ctx + ' -> ' + bad[1], step)
                    break
                # --- what is reported as failed is about THIS request: after a request in which something could not be
                # computed, a request in which everything can be is answered like a freshly built twin of the host answers it
                prev = plan['ops'][step - 1] if step else None
                if (prev is not None and (prev.get('flaky_broken') or prev['faults']) and not FLAKY['broken'] and not fired
                        and op['view'] == 'json'):
                    twin, tbase, _, _ = self.build(cfg)
                    tex = call_app(twin, make_environ('GET', tbase + 'json/', headers={'Accept': 'text/html'}))
                    try:
                        mine = sorted(g for g, v in json.loads(body).items() if isinstance(v, dict) and 'exc_content' in v)
                        fresh = sorted(g for g, v in json.loads(tex.body.decode('utf8', 'replace')).items() if isinstance(v, dict) and 'exc_content' in v)
                    except ValueError:
                        mine = fresh = None
                    if mine is not None:
                        res.probe('failure-report-compared-with-a-fresh-twin')
                        if mine != fresh:
                            res.violate(K + 'stale-failure-report:json', ctx + ' -> groups reported as failed: %s; a freshly built host with the same '
                                        'configuration reports %s (the earlier request failed there, this one does not)' % (mine, fresh), step)
                            break
        FLAKY['broken'] = False
        res.steps = len(plan['ops'])
        return res

    @staticmethod
    def check_resources(view, body, serving, res):
        if not serving:
            return None
        # (a secret-named resource is never repr()-ed, so ITS repr failing cannot take the section down)
        has_badrepr = any(kind.startswith('badrepr') and 'secret' not in name for name, (kind, _) in serving.items())
        if not has_badrepr and any(kind.startswith('badrepr') and 'secret' in name for name, (kind, _) in serving.items()):
            res.probe('secret-resource-with-failing-repr')
        if view == 'json':
            try:
                doc = json.loads(body)
            except ValueError:
                return None     # JSON well-formedness is not part of C18
            section = doc.get('app', {})
            listed = section.get('resources')
            if listed is None:
                if has_badrepr and 'exc_content' in section:
                    res.probe('bad-repr-section-inline')
                    return None
                return ('resources-section-missing', 'no resource list and no inline error')
            table = dict((r['key'], r['value']) for r in listed)
        else:
            table = None
            if has_badrepr:
                # the page must SAY that the section could not be computed: the error is reported inline
                kinds = set(kind for name, (kind, _) in serving.items() if kind.startswith('badrepr') and 'secret' not in name)
                signs = {'badrepr': 'repr failed', 'badrepr-http': 'ServiceUnavailable', 'badrepr-quoting': 'invalid literal',
                         'badrepr-surrogate': 'No such file', 'badrepr-badstr': '_Unprintable', 'badrepr-self': 'ValueError'}
                if not any(signs[k] in body for k in kinds if k in signs):
                    return ('failed-section-not-reported', 'the resources section could not be computed (%s) and the page does not say so'
                            % sorted(kinds))
                res.probe('bad-repr-section-inline')
                return None
        for name, (kind, marker) in sorted(serving.items()):
            if 'secret' in name:
                if table is not None:
                    if table.get(name) != '[REDACTED]':
                        return ('secret-not-marked-redacted', 'resource %r is listed as %r' % (name, table.get(name)))
                    res.probe('secret-redacted-json')
                else:
                    if html.escape(name, quote=False) not in body and html.escape(name) not in body:
                        return ('secret-resource-not-listed', 'resource %r is not listed on the page' % name)
                    if '[REDACTED]' not in body:
                        return ('secret-not-marked-redacted', 'no redaction marker on the page')
                    res.probe('secret-redacted-html')
            elif kind in EXACT:
                want = repr(EXACT[kind])
                if table is not None and table.get(name) != want:
                    return ('plain-resource-shown-as-another-value', 'resource %r = %s is listed as %r' % (name, want, table.get(name)))
                res.probe('equal-but-different-values-listed')
            elif kind == 'tuple0':
                if table is not None and table.get(name) != '()':
                    return ('plain-resource-hidden', 'resource %r (an empty tuple) shows %r' % (name, table.get(name)))
                res.probe('plain-visible')
            elif not kind.startswith('badrepr'):
                marker = marker_forms(kind, marker)[0]
                if kind.startswith('tuple') or kind == 'namedtuple':
                    res.probe('tuple-valued-resource')
                if table is not None:
                    if name not in table or marker[:40] not in table[name]:
                        return ('plain-resource-hidden', 'resource %r shows %r, expected its repr' % (name, table.get(name)))
                else:
                    if marker[:40] not in body:
                        return ('plain-resource-hidden', 'value of resource %r is not visible' % name)
                res.probe('plain-visible')
        return None


class ReprCallableRender(object):
    def __call__(self, context):
        return Response(repr(context))


CHECK = C18()
