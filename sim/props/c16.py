"""C16 -- signed cookies: only intact, unexpired, server-signed data is ever
presented (cookie world: multi-client histories, simulated clock, byzantine clients).

plan = {config: {expiry, arg_name, cookie_name, key: str|None, nclients}, ops: [...]}
ops:  {op:'req', c, act:'set'|'del'|'read'|'clear', k, v, jitter:[..]}
      {op:'clock', mode:'advance'|'back', dt} | {op:'clock', mode:'to_expiry', c, off}
      {op:'tamper', c, kind, ...params, keep:bool}
      {op:'replay', c, back:n} | {op:'cross', c, other}
"""
import base64
import json
from email.utils import parsedate_to_datetime

import clastic.middleware.cookie as ck
import secure_cookie.cookie as sc
from clastic import Application, Response

from sim.core.base import Check, RunResult, Streams, InvalidPlan, canon
from sim.core.gateway import make_environ, call_app, SimClient
from sim.core.seams import Seams, SimClock, TimeProxy
from sim.core.sched import BatonScheduler
from sim.core import runner
import os

WATCH = (os.path.join(runner.REPO, 'clastic') + os.sep, '<sinter')

VALUES = ['L' * 3300, 'v', '', 'é-ünï-☃', '<b>&=?;,"\\', 0, 1, -7, 2.5, 1e100, True, False, None, [], {}, [1, [2, [3]]],
          {'a': {'b': [None, 'x']}}, 'a' * 200, ' ', '+/=', [{'k': 'v'}, 2],
          # JSON texts whose base64 needs the '+' and '/' digits, at every alignment
          'what?', '->', 'a->', 'ab->', '~', 'x~', 'xy~', '???', '>>>', '?>~', 'a?b>c~d', ['?', '>', '~'], {'q?': '>~'}, '\x7f', 'ÿþý',
          # strings no UTF-8 encoder accepts (half of a surrogate pair, as a JavaScript client that cuts an emoji sends it)
          '\ud83d', 'x\udc00y', {'n': ['\ud83d', 1]}, '\U0001f600', '\x00']
KEYS = ['k', 'j', 'user', 'a~b', 'ünï', 'a b', 'k&k', 'k=k', '', "it's", 'dot.ted', 'x(1)', 'st*r', '!', 'pipe|d']
TAMPERS = ['expires_nonnumber', 'expires_nonnumber', 'amp_to_pipe', 'amp_to_pipe', 'pipe_tail', 'flip', 'flip', 'trunc', 'extend', 'swap', 'resign', 'random', 'nonascii', 'badb64', 'nosep',
           'quotes', 'junk_in_mac', 'strip_pad', 'empty', 'only_sep', 'dup_item', 'expiry_forge', 'unsigned_json']


class OsProxy(object):
    """os seam of clastic.middleware.cookie: seeded urandom."""

    def __init__(self, tag):
        self.tag = tag
        self.calls = 0

    def urandom(self, n):
        self.calls += 1
        # seeded, but different on every call -- like the real thing
        return (('simkey-%s-%d-' % (self.tag, self.calls)).encode() * n)[:n]

    def __getattr__(self, k):
        import os
        return getattr(os, k)


def make_endpoint(arg_name):
    src = ('def ep(request, %s):\n'
           '    return _impl(request, %s)\n') % (arg_name, arg_name)
    ns = {'_impl': _impl}
    exec(src, ns)
    return ns['ep']


def _impl(request, cookie):
    before = json.loads(json.dumps(dict(cookie)))
    a = request.args
    act = a.get('act', 'read')
    if act == 'set':
        cookie[a['k']] = json.loads(a['v'])
    elif act == 'logout':
        cookie.set_expires()          # the documented way to end a session: the cookie is stamped as long expired
    elif act == 'push':
        # the usual way to keep a list in a session: fetch it, change it, store it back (the SAME object)
        lst = cookie.get(a['k'], [])
        if not isinstance(lst, list):
            lst = []
        lst.append(json.loads(a['v']))
        cookie[a['k']] = lst
    elif act == 'del':
        cookie.pop(a['k'], None)
    elif act == 'clear':
        cookie.clear()
    after = dict((k, v) for k, v in cookie.items() if not (act == 'logout' and k == '_expires'))
    return Response(json.dumps({'before': before, 'after': after}), mimetype='application/json')


def jcanon(x):
    return json.dumps(x, sort_keys=True)


def tamper(kind, raw, p, other_token, registry_tokens):
    """-> (value to send, payload-source token or None).  Pure function of its arguments."""
    n = len(raw)
    pos = min(n - 1, int(p.get('pos', 0.5) * n)) if n else 0
    mac, sep, payload = raw.partition('?')
    if kind == 'flip':
        if not n:
            return 'A', None
        c = p.get('ch', 'A')
        if raw[pos] == c:
            c = 'B' if c != 'B' else 'C'
        new = raw[:pos] + c + raw[pos + 1:]
        return new, (raw if new.partition('?')[2] == payload else None)
    if kind == 'trunc':
        new = raw[:pos]
        return new, (raw if new.partition('?')[2] == payload and '?' in new else None)
    if kind == 'extend':
        return raw + p.get('tail', 'A'), None
    if kind == 'swap':
        if other_token:
            return mac + '?' + other_token.partition('?')[2], other_token
        return payload + '?' + mac, None
    if kind == 'expires_nonnumber':
        # not signed by anybody; the embedded expiry item is well-formed base64 JSON -- of something that is no number
        e = base64.b64encode(json.dumps(p.get('data') and None or [None, 'soon', [1], {'t': 1}, True][int(p.get('pos', 0) * 5) % 5]).encode()).decode()
        return 'x?_expires=%s%s' % (e, '&k=ImV2aWwi' if p.get('alt') else ''), None
    if kind == 'amp_to_pipe':
        # the item separator replaced by the character the MAC puts in front of every item: one "item" whose bytes are
        # MAC-equivalent to the genuine cookie
        return mac + sep + payload.replace('&', '|'), None
    if kind == 'pipe_tail':
        # the genuine first item, the rest of the payload dropped into it behind a '|'
        first, _, rest = payload.partition('&')
        return mac + sep + first + '|' + rest.replace('&', '|'), None
    if kind == 'resign':
        forged = ck.JSONCookie(p.get('data', {'k': 'FORGED'}), b'attacker-key').serialize().decode()
        return forged, None
    if kind == 'random':
        return p.get('text', 'abc?=&%'), None
    if kind == 'nonascii':
        return ('é?é=1' if p.get('alt') else raw.replace('k', 'é', 1) if 'k' in raw else 'é' + raw), None
    if kind == 'badb64':
        return 'a' + raw, raw
    if kind == 'nosep':
        return raw.replace('?', '', 1), None
    if kind == 'quotes':
        return '"' * p.get('lq', 1) + raw + '"' * p.get('rq', 0), raw
    if kind == 'junk_in_mac':
        i = min(len(mac), int(p.get('pos', 0.5) * len(mac)))
        return mac[:i] + p.get('ch', '!') + mac[i:] + sep + payload, raw
    if kind == 'strip_pad':
        return raw.replace('=?', '?', 1), raw
    if kind == 'empty':
        return '', None
    if kind == 'only_sep':
        return '?', None
    if kind == 'dup_item':
        return raw + '&' + payload.split('&')[0], None
    if kind == 'expiry_forge':
        # keep the MAC, push the embedded expiry far into the future
        items = [it for it in payload.split('&') if not it.startswith('_expires=')]
        items.append('_expires=' + base64.b64encode(b'99999999999').decode())
        return mac + '?' + '&'.join(sorted(items)), None
    if kind == 'unsigned_json':
        return base64.b64encode(json.dumps(p.get('data', {'k': 'FORGED'})).encode()).decode(), None
    raise InvalidPlan('unknown tamper kind %r' % kind)


class C16(Check):
    id = 'C16'
    world = 'cookie'
    level = 'exploration'
    design_ref = 'DESIGN.md 3.10'
    runs = {'quick': 5000, 'thorough': 120000}
    shrink_lists = (('ops',),)
    hashseeds = {'quick': ['1:OA'], 'thorough': ['1:OA', 2]}
    rule = ('seeded histories of 1-3 simulated clients against one SignedCookieMiddleware server: set/del/read/clear '
            'with JSON values, clock advances to just before/at/after the announced expiry, backward jumps, jitter '
            'inside a request, 18 tamper kinds, replay of older tokens, cross-client presentation; oracle = registry '
            'of every token the server issued + expiry model. Non-trivial request = tampered/replayed/cross token or '
            'a clock step that crosses an expiry; distinct = (expiry config, op kind, tamper kind, token state, outcome).')
    assumptions = ('clients never expire cookies themselves (the server must)',
                   'keys starting with "_" are reserved by the cookie format and not generated',
                   'cookies are bearer tokens: another client presenting a valid token sees its data (by design)')
    components = {'real': ['clastic.middleware.cookie (JSONCookie, SignedCookieMiddleware)', 'secure_cookie 0.1.0',
                           'werkzeug cookie parsing/dumping', 'clastic dispatch'],
                  'stub': ['clock (time seams in clastic.middleware.cookie and secure_cookie.cookie)',
                           'os.urandom', 'HTTP clients incl. byzantine ones', 'WSGI server']}
    level_text = ('Seeded search over client/clock/tamper histories with a token-registry oracle; the space is '
                  'unbounded (byte strings x times), so sampling with targeted boundary steps is the honest level.')
    level_note = 'Trusted: HMAC-SHA1 itself; the harness registry of issued tokens; simulated clock seams.'
    required_probes = ('session-ended-by-the-application', 'nested-value-changed-and-stored-back', 'binary-secret-key', 'other-servers-token-presented', 'other-servers-token-presented-to-binary-keyed-server', 'server-not-in-utc', 'concurrent-clients', 'two-cookie-servers', 'expired-empty', 'valid-at-exact-expiry', 'tamper-empty', 'tamper-source-data',
                       'cross-client-seen', 'replay-old-token', 'backward-jump-valid-again')

    def gen_config(self, rng):
        return {'tz': rng.choice(['UTC', 'UTC', 'JST-9', 'EST5EDT', 'NZST-12NZDT', 'Etc/GMT+11']),
                'expiry': rng.choice([0, 'never', 50, 50, 3600, 2.5, 1]),
                'arg_name': rng.choice(['cookie', 'cookie', 'sess']),
                'cookie_name': rng.choice([None, None, 'sid', 'my-cookie']),
                # 'hex:' = a binary secret (e.g. read from /dev/urandom once and kept in a file): not valid UTF-8
                'key': rng.choice(['server-key', 'server-key', 'k', None, 'hex:fffe7365727665720080', 'hex:c328a0a1']),
                'nclients': rng.choice([1, 2, 2, 3])}

    def generate(self, seed, tier):
        S = Streams(seed)
        cfg = self.gen_config(S['config'])
        if S['config'].random() < 0.4:
            # a second application with its own SignedCookieMiddleware (other expiry / key) in the same process
            second = self.gen_config(S['config'])
            if (cfg['key'] or '').startswith('hex:') and S['config'].random() < 0.7:
                # the neighbour's binary secret differs from this server's in its non-UTF-8 bytes only
                second['key'] = {'hex:fffe7365727665720080': 'hex:fdfc7365727665720081', 'hex:c328a0a1': 'hex:c329a1a0'}[cfg['key']]
            elif (second['key'] or '').startswith('hex:'):
                second['key'] = 'hex:00' + second['key'][4:]
            else:
                second['key'] = (second['key'] or 'k2') + '-second'
            second['nclients'] = cfg['nclients']
            cfg['second'] = second
        rng, frng, erng = S['ops'], S['faults'], S['env']
        fault_free = frng.random() < 0.15
        ops = []
        nc = cfg['nclients']
        def conc_op():
            sch = S['sched']
            n = min(nc, sch.choice([2, 2, 3]))
            gran = sch.choice(['line', 'line', 'ins'])
            hi = 150 if gran == 'line' else 900
            names_t = ['T%d' % i for i in range(n)]
            order = list(names_t)
            sch.shuffle(order)
            cs = sch.sample(range(nc), n)
            return {'op': 'conc', 'reqs': [{'c': cc, 'act': 'set', 'k': rng.choice(KEYS[:4]), 'v': rng.choice(VALUES)} for cc in cs],
                    'granularity': gran, 'order': order,
                    'preempts': sorted([sch.randint(1, hi), sch.choice(['demote'] + names_t)] for _ in range(sch.randint(1, 6)))}
        if nc > 1 and rng.random() < 0.5:
            ops.append(conc_op())      # the server's very first requests overlap
        for i in range(rng.randint(6, 40)):
            c = rng.randrange(nc)
            r = rng.random()
            if nc > 1 and r > 0.97:
                ops.append(conc_op())
                continue
            if i < nc or r < 0.35:
                act = rng.choice(['set', 'set', 'set', 'del', 'read', 'read', 'clear', 'push', 'push', 'logout'])
                op = {'op': 'req', 'c': c, 'act': act, 'k': rng.choice(KEYS[:4] if rng.random() < 0.8 else KEYS),
                      'v': rng.choice(VALUES), 'jitter': []}
                if erng.random() < 0.15:
                    op['jitter'] = [erng.choice([0.0, 0.4, 0.6, 1.0, 30.0]) for _ in range(erng.randint(1, 3))]
                ops.append(op)
            elif r < 0.55:
                m = rng.choice(['advance', 'to_expiry', 'to_expiry', 'back'])
                if m == 'to_expiry':
                    ops.append({'op': 'clock', 'mode': 'to_expiry', 'c': c,
                                'off': erng.choice([-1.0, -0.001, 0.0, 0.0, 0.001, 0.5, 1.0, 100.0])})
                else:
                    ops.append({'op': 'clock', 'mode': m, 'dt': erng.choice([0.5, 1, 10, 49, 50, 51, 3599, 3601, 86400])})
            elif fault_free:
                ops.append({'op': 'req', 'c': c, 'act': 'read', 'k': 'k', 'v': None, 'jitter': []})
            elif r < 0.85:
                kind = frng.choice(TAMPERS)
                op = {'op': 'tamper', 'c': c, 'kind': kind, 'pos': frng.random(), 'keep': frng.random() < 0.3,
                      'ch': frng.choice('ABCxyz019+/=! *é'), 'tail': frng.choice(['&k=ImV2aWwi', 'A', '=', '&', '?x', '"']),
                      'text': ''.join(frng.choice('abc?=&%"\\;, é\x01') for _ in range(frng.randint(0, 30))),
                      'alt': frng.random() < 0.5, 'lq': frng.randint(0, 3), 'rq': frng.randint(0, 3),
                      'data': frng.choice([{'k': 'FORGED'}, {'user': 'admin'}, {}]), 'other': frng.randrange(nc),
                      'quoted': frng.random() < 0.5}
                ops.append(op)
            elif r < 0.93:
                ops.append({'op': 'replay', 'c': c, 'back': rng.randint(1, 4)})
            elif r < 0.97 or not cfg.get('second'):
                ops.append({'op': 'cross', 'c': c, 'other': rng.randrange(nc)})
            else:
                # a token the OTHER server of this process issued (its own key) is presented here
                ops.append({'op': 'cross_server', 'c': c, 'other': rng.randrange(nc)})
        if cfg.get('second'):
            for op in ops:
                op['srv'] = 1 if rng.random() < 0.4 else 0
        return {'world': 'cookie', 'seed': seed, 'config': cfg, 'ops': ops}

    # ---- execution ---------------------------------------------------------
    def execute(self, plan):
        res = RunResult()
        cfg = plan['config']
        clock = SimClock()
        osp = OsProxy(str(plan.get('seed', 0) % 1000))
        # the server's local time zone is part of the environment: signed expiry must not depend on it
        import os as _os
        import time as _time
        old_tz = _os.environ.get('TZ')
        _os.environ['TZ'] = cfg.get('tz', 'UTC')
        _time.tzset()
        try:
            return self._execute(plan, cfg, clock, osp, res)
        finally:
            if old_tz is None:
                _os.environ.pop('TZ', None)
            else:
                _os.environ['TZ'] = old_tz
            _time.tzset()

    def _execute(self, plan, cfg, clock, osp, res):
        if cfg.get('tz', 'UTC') != 'UTC':
            res.probe('server-not-in-utc')
        with Seams() as sm:
            sm.patch(ck, 'time', TimeProxy(clock))
            sm.patch(sc, 'time', TimeProxy(clock))
            sm.patch(ck, 'os', osp)
            states = []
            for n, scfg in enumerate([cfg] + ([cfg['second']] if cfg.get('second') else [])):
                key = (bytes.fromhex(scfg['key'][4:]) if scfg['key'].startswith('hex:') else scfg['key'].encode()) if scfg['key'] else None
                if scfg['key'] and scfg['key'].startswith('hex:'):
                    res.probe('binary-secret-key')
                kw = dict(arg_name=scfg['arg_name'], secret_key=key, expiry=scfg['expiry'])
                if scfg['cookie_name']:
                    kw['cookie_name'] = scfg['cookie_name']
                calls0 = osp.calls
                mw = ck.SignedCookieMiddleware(**kw)
                if key is None:
                    res.fire('seeded-urandom-key')    # the default key comes from the os.urandom seam (whenever it is drawn)
                app = Application([('/', make_endpoint(scfg['arg_name']))], middlewares=[mw])
                states.append(_State(scfg, clock, mw.cookie_name, app, res))
            if len(states) > 1:
                res.probe('two-cookie-servers')
            for st in states:
                st.peers = states
            for step, op in enumerate(plan['ops']):
                st = states[op.get('srv', 0) % len(states)]
                st.step = step
                try:
                    getattr(st, 'op_' + op['op'])(op)
                except KeyError as e:
                    raise InvalidPlan('bad op %r: %r' % (op, e))
                if res.violations:
                    break
            # recovery: every client with a registered, unexpired token is served its data
            if not res.violations:
                for st in states:
                    for c in range(st.cfg['nclients']):
                        st.step = 'final'
                        st.honest(c, 'read', None, None, [], final=True)
        res.steps = len(plan['ops'])
        res.sim_time = clock.covered
        return res

    def simplify(self, plan):
        for i, op in enumerate(plan['ops']):
            if op.get('jitter'):
                c = dict(plan)
                c['ops'] = [dict(o) for o in plan['ops']]
                c['ops'][i]['jitter'] = []
                yield c
        if plan['config']['nclients'] > 1:
            c = dict(plan)
            c['config'] = dict(plan['config'], nclients=1)
            c['ops'] = [dict(o, c=0, other=0) if 'other' in o else dict(o, c=0) if 'c' in o else o for o in plan['ops']]
            yield c


class _State(object):
    def __init__(self, cfg, clock, cname, app, res):
        self.cfg, self.clock, self.cname, self.app, self.res = cfg, clock, cname, app, res
        self.clients = [SimClient('c%d' % i) for i in range(cfg['nclients'])]
        self.model = [dict() for _ in self.clients]     # what an honest client's cookie should hold
        self.registry = {}     # raw token (unquoted) -> {'data': dict, 'exp': int|None, 'owner': c}
        self.issued = [[] for _ in self.clients]        # tokens issued to each client, in order
        self.tainted = [False for _ in self.clients]    # jar holds a value the server did not issue
        self.step = 0
        self.numeric = cfg['expiry'] not in (0, 'never')

    # -- helpers ------------------------------------------------------------
    def current(self, c):
        v = self.clients[c].jar.get(self.cname)
        return v

    def exchange(self, c, query, cookie_value, jitter=()):
        cl = self.clients[c]
        hdr = {}
        if cookie_value is not None:
            hdr['Cookie'] = '%s=%s' % (self.cname, cookie_value)
        env = make_environ('GET', '/?' + query, headers=hdr)
        t0 = self.clock.now
        self.clock.jitter = list(jitter)
        reads0 = self.clock.reads
        values = []
        orig_read = self.clock.read

        def logged():
            v = orig_read()
            values.append(v)
            return v
        self.clock.read = logged
        try:
            ex = call_app(self.app, env)
        finally:
            del self.clock.read
            self.clock.jitter = []
        times = [t0] + values + [self.clock.now]
        return ex, min(times), max(times)

    def record_issue(self, c, ex, tmin, tmax, after, forced_exp=None):
        """Register a token the server just issued; check its announced expiry."""
        res = self.res
        for raw in ex.header_all('Set-Cookie'):
            name, _, rest = raw.partition('=')
            if name.strip() != self.cname:
                continue
            value = rest.split(';', 1)[0]
            attrs = {}
            for part in rest.split(';')[1:]:
                k, _, v = part.strip().partition('=')
                attrs[k.lower()] = v
            exp = None
            if 'expires' in attrs:
                exp = int(parsedate_to_datetime(attrs['expires']).timestamp())
            K = 'C16/expiry-announced/'
            if forced_exp is not None:
                if exp != forced_exp:
                    res.violate(K + 'logout', 'step %s: the application stamped the cookie expired (%d) but Set-Cookie announces %r' % (self.step, forced_exp, exp))
            elif self.numeric:
                e = self.cfg['expiry']
                if exp is None:
                    res.violate(K + 'missing', 'step %s: numeric expiry %r but Set-Cookie has no Expires: %r' % (self.step, e, raw))
                elif not (int(tmin + e) <= exp <= int(tmax + e)):
                    res.violate(K + 'wrong', 'step %s: Expires=%d not in [%d, %d] (t in [%r, %r], expiry %r)'
                                % (self.step, exp, int(tmin + e), int(tmax + e), tmin, tmax, e))
            elif exp is not None:
                res.violate(K + 'unexpected', 'step %s: expiry %r but Set-Cookie announces Expires: %r' % (self.step, self.cfg['expiry'], raw))
            tok = value.strip('"')
            # werkzeug quotes/escapes the value; undo the escaping a browser would send back verbatim
            self.clients[c].jar[self.cname] = value
            self.registry[_unq(value)] = {'data': after, 'exp': exp, 'owner': c}
            self.issued[c].append(value)
            self.tainted[c] = False
            return True
        return False

    def validity(self, tok_unq, tmin, tmax):
        """'valid' | 'expired' | 'either' | None(unknown token)."""
        r = self.registry.get(tok_unq)
        if r is None:
            return None
        if r['exp'] is None or tmax <= r['exp']:
            return 'valid'
        if tmin > r['exp']:
            return 'expired'
        return 'either'

    def parse(self, ex, what):
        res = self.res
        if ex.escaped is not None:
            res.violate('C16/exception-escaped:%s' % type(ex.escaped).__name__,
                        'step %s %s: %r escaped the application' % (self.step, what, ex.escaped))
            return None
        if ex.code != 200:
            detail = ex.body[:300].decode('utf8', 'replace')
            m = 'C16/status-%s' % ex.code
            import re
            t = re.search(r'\[([\w.]+):', detail)
            res.violate(m + (':' + t.group(1) if t else ''), 'step %s %s: status %s because of a cookie\n%s'
                        % (self.step, what, ex.status, detail))
            return None
        for e in ex.errors:
            res.violate('C16/protocol:' + e[0], 'step %s %s: %s %s' % ((self.step, what) + e))
            return None
        return json.loads(ex.body)

    # -- ops ------------------------------------------------------------------
    @staticmethod
    def query(act, k, v):
        from urllib.parse import quote
        q = 'act=%s' % act
        if act in ('set', 'del', 'push'):
            q += '&k=%s' % quote(k)
        if act in ('set', 'push'):
            q += '&v=%s' % quote(json.dumps(v))
        return q

    def honest(self, c, act, k, v, jitter, final=False):
        sent = self.current(c)
        ex, tmin, tmax = self.exchange(c, self.query(act, k, v), sent, jitter)
        self.judge_honest(c, act, k, v, sent, ex, tmin, tmax, final)

    def op_conc(self, op):
        """Honest requests of DIFFERENT clients served at the same time by this server."""
        reqs = [r for i, r in enumerate(op['reqs']) if r['c'] not in [x['c'] for x in op['reqs'][:i]] and r['c'] < len(self.clients)]
        if len(reqs) < 2:
            for r in reqs:
                self.honest(r['c'], r['act'], r.get('k'), r.get('v'), [])
            return
        prepared = []
        for r in reqs:
            sent = self.current(r['c'])
            hdr = {'Cookie': '%s=%s' % (self.cname, sent)} if sent is not None else {}
            prepared.append((r, sent, make_environ('GET', '/?' + self.query(r['act'], r.get('k'), r.get('v')), headers=hdr)))
        got = {}
        tasks = dict(('T%d' % i, (lambda i=i, env=p[2]: got.__setitem__(i, call_app(self.app, env))))
                     for i, p in enumerate(prepared))
        sched = BatonScheduler(op.get('order', sorted(tasks)), op.get('preempts', []), op.get('granularity', 'line'), WATCH)
        t0 = self.clock.now
        sched.run(tasks)
        self.res.fire('preempt', len(sched.switches))
        self.res.probe('concurrent-clients')
        self.res.nontrivial = True
        if sched.errors:
            self.res.violate('C16/thread-raised:%s' % type(list(sched.errors.values())[0]).__name__, '%r' % (sched.errors,), self.step)
            return
        for i, (r, sent, env) in enumerate(prepared):
            self.judge_honest(r['c'], r['act'], r.get('k'), r.get('v'), sent, got[i], t0, self.clock.now, False)
            if self.res.violations:
                return

    def judge_honest(self, c, act, k, v, sent, ex, tmin, tmax, final=False):
        res = self.res
        body = self.parse(ex, 'honest %s' % act)
        state = None
        if body is not None:
            if sent is None:
                expect = [{}]
                state = 'none'
            elif self.tainted[c]:
                expect = None  # judged when the tampered value was first sent; here only "registered data or empty"
                state = 'tainted'
            else:
                val = self.validity(_unq(sent), tmin, tmax)
                state = val
                if val == 'valid':
                    expect = [self.model[c]]
                elif val == 'expired':
                    expect = [{}]
                    res.probe('expired-empty')
                else:
                    expect = [self.model[c], {}]
                if val == 'valid' and self.registry[_unq(sent)]['exp'] is not None and tmin == tmax == self.registry[_unq(sent)]['exp']:
                    res.probe('valid-at-exact-expiry')
            before = body['before']
            if expect is not None and jcanon(before) not in [jcanon(e) for e in expect]:
                what = 'expired' if state == 'expired' else 'valid'
                res.violate('C16/honest/%s-token-wrong-data' % what,
                            'step %s client %d: sent its own %s token, endpoint saw %s, expected %s (t in [%r,%r], token exp %r)'
                            % (self.step, c, state, jcanon(before), ' or '.join(jcanon(e) for e in expect), tmin, tmax,
                               self.registry.get(_unq(sent), {}).get('exp')))
                return
            if expect is None:
                allowed = [{}] + [r['data'] for r in self.registry.values()]
                if jcanon(before) not in [jcanon(a) for a in allowed]:
                    res.violate('C16/tainted/unregistered-data', 'step %s client %d: endpoint saw %s, never issued'
                                % (self.step, c, jcanon(before)))
                    return
            # apply the op to what the endpoint actually saw -> new model
            new = dict(before)
            if act == 'push':
                new[k] = (list(new[k]) if isinstance(new.get(k), list) else []) + [v]
                if isinstance(before.get(k), list):
                    res.probe('nested-value-changed-and-stored-back')
            if act == 'set':
                new[k] = v
            elif act == 'del':
                new.pop(k, None)
            elif act == 'clear':
                new = {}
            if jcanon(body['after']) != jcanon(new):
                res.violate('C16/endpoint-echo-inconsistent', 'harness endpoint: %r' % body)
                return
            issued = self.record_issue(c, ex, tmin, tmax, new, forced_exp=123456 if act == 'logout' else None)
            if act == 'logout':
                self.res.probe('session-ended-by-the-application')
                if not issued:
                    res.violate('C16/not-saved', 'step %s client %d: logout but no Set-Cookie' % (self.step, c))
                    return
            if issued:
                self.model[c] = new
            elif jcanon(new) != jcanon(before) or (self.numeric and sent is not None):
                # cookie changed (or must be re-stamped) but the server did not send it back
                res.violate('C16/not-saved', 'step %s client %d: cookie changed %s -> %s but no Set-Cookie'
                            % (self.step, c, jcanon(before), jcanon(new)))
                return
            elif state in ('expired', 'none') and not self.tainted[c]:
                self.model[c] = new
        self.res.ev(self.step, 'final' if final else 'req', c, act, 'state', state, 'code', ex.code,
                    'saw', jcanon(body['before']) if body else None)
        if final and state == 'valid':
            self.res.probe('recovered-valid')

    def op_req(self, op):
        self.honest(op['c'], op['act'], op.get('k'), op.get('v'), op.get('jitter') or [])

    def op_clock(self, op):
        if op['mode'] == 'advance':
            self.clock.advance(op['dt'])
        elif op['mode'] == 'back':
            self.clock.advance(-op['dt'])
            self.res.fire('clock_jump_back')
        else:
            cur = self.current(op['c'])
            r = self.registry.get(_unq(cur)) if cur else None
            if r is None or r['exp'] is None or r['exp'] < self.clock.start:
                # (a cookie the application stamped as long expired: no travelling back to 1970)
                self.clock.advance(1.0)
            else:
                was_expired = self.clock.now > r['exp']
                self.clock.now = r['exp'] + op['off']
                self.clock.max_seen = max(self.clock.max_seen, self.clock.now)
                self.res.fire('clock_to_expiry%+g' % op['off'])
                if was_expired and self.clock.now <= r['exp']:
                    self.res.probe('backward-jump-valid-again')
                self.res.nontrivial = True
        self.res.ev(self.step, 'clock', op['mode'], round(self.clock.now - self.clock.start, 4))

    def byzantine(self, c, value, source_unq, kind, keep, sig):
        res = self.res
        ex, tmin, tmax = self.exchange(c, 'act=read', value)
        body = self.parse(ex, '%s %r' % (kind, value[:80]))
        res.fire(kind)
        res.nontrivial = True
        outcome = None
        if body is not None:
            allowed = [{}]
            exact = None
            reg = self.registry.get(_unq(value))
            if reg is not None:
                # the value IS a registered token (replay / cross / a no-op tamper): clause (a)/(b)
                val = self.validity(_unq(value), tmin, tmax)
                if val == 'valid':
                    exact = [reg['data']]
                elif val == 'expired':
                    exact = [{}]
                else:
                    exact = [reg['data'], {}]
            else:
                # not attacker-chosen: the payload part is byte-identical to that of a token the
                # server issued (the mutation only touched the MAC part, where base64 has slack)
                payload = _unq(value).partition('?')[2]
                for tk in sorted(self.registry):
                    if (payload and tk.partition('?')[2] == payload and _same_mac(_unq(value), tk)
                            and self.validity(tk, tmin, tmax) in ('valid', 'either')):
                        allowed.append(self.registry[tk]['data'])
            saw = body['before']
            if exact is not None:
                if jcanon(saw) not in [jcanon(e) for e in exact]:
                    res.violate('C16/%s/registered-token-wrong-data' % sig,
                                'step %s client %d presented a server-issued token (%s); endpoint saw %s, expected %s'
                                % (self.step, c, kind, jcanon(saw), ' or '.join(jcanon(e) for e in exact)))
                    return
                outcome = 'data' if saw else 'empty'
            else:
                if jcanon(saw) not in [jcanon(a) for a in allowed]:
                    res.violate('C16/tamper/%s/attacker-contents' % kind,
                                'step %s client %d sent %r (%s); endpoint saw %s, allowed only %s'
                                % (self.step, c, value[:120], kind, jcanon(saw), ' or '.join(jcanon(a) for a in allowed)))
                    return
                outcome = 'source-data' if saw else 'empty'
                res.probe('tamper-' + outcome)
            if keep:
                # the client keeps sending this value until the server replaces it
                self.clients[c].jar[self.cname] = value
                self.tainted[c] = reg is None
                if reg is not None:
                    self.model[c] = dict(reg['data'])
            issued = self.record_issue(c, ex, tmin, tmax, dict(saw)) if keep else False
            if issued:
                self.model[c] = dict(saw)
        self.res.sigs.add('%s|%s|%s|%s' % (self.cfg['expiry'], sig, kind, outcome))
        self.res.ev(self.step, sig, c, kind, 'code', ex.code, 'outcome', outcome)

    def op_tamper(self, op):
        c = op['c']
        cur = self.current(c)
        if cur is None:
            cur = self.issued[c][-1] if self.issued[c] else 'AAAA?k=InYi'
        raw = _unq(cur)
        other = None
        oc = op.get('other', 0) % len(self.clients)
        if self.issued[oc]:
            other = _unq(self.issued[oc][-1])
        value, source = tamper(op['kind'], raw, op, other, None)
        if op.get('quoted') and '"' not in value and '\\' not in value:
            value = '"%s"' % value
        if source is not None and source not in self.registry:
            source = None
        self.byzantine(c, value, source, op['kind'], op.get('keep'), 'tamper')

    def op_replay(self, op):
        c = op['c']
        if len(self.issued[c]) < 2:
            return self.honest(c, 'read', None, None, [])
        tok = self.issued[c][max(0, len(self.issued[c]) - 1 - op['back'])]
        self.res.probe('replay-old-token')
        self.byzantine(c, tok, None, 'replay', False, 'replay')

    def op_cross_server(self, op):
        c = op['c']
        others = [p for p in getattr(self, 'peers', []) if p is not self]
        toks = [t for p in others for lst in p.issued for t in lst[-1:]]
        if not toks:
            return self.honest(c, 'read', None, None, [])
        tok = toks[op.get('other', 0) % len(toks)]
        self.res.probe('other-servers-token-presented')
        if self.cfg['key'] and self.cfg['key'].startswith('hex:'):
            self.res.probe('other-servers-token-presented-to-binary-keyed-server')
        self.byzantine(c, tok, None, 'cross_server', False, 'tamper')

    def op_cross(self, op):
        c, o = op['c'], op['other'] % len(self.clients)
        if o == c or not self.issued[o]:
            return self.honest(c, 'read', None, None, [])
        self.res.probe('cross-client-seen')
        self.byzantine(c, self.issued[o][-1], None, 'cross', False, 'cross')


def _same_mac(a, b):
    """Do the MAC parts of two tokens decode (leniently, like base64.b64decode
    does) to the same bytes?  That is the only slack a signed value has."""
    try:
        da = base64.b64decode(a.partition('?')[0].encode('utf8', 'replace'))
        db = base64.b64decode(b.partition('?')[0].encode('utf8', 'replace'))
        return da == db
    except Exception:
        return False


def _unq(value):
    """What the server's cookie parser makes of a (possibly quoted) value,
    then stripped of quotes like JSONCookie.unserialize does."""
    from werkzeug.http import parse_cookie
    try:
        d = parse_cookie('x=%s' % value)
        v = d.get('x', '')
    except Exception:
        v = value
    return v.strip('"')


CHECK = C16()
