"""C15 -- built-in middlewares never change what the client receives (twin world).

plan = {config: {stack: [middleware names]}, ops: [{path, method, ae, dt, jitter}]}
The same scenario application is built twice -- bare, and with a stack of
built-in middlewares in default configuration -- and one client history is
replayed against both in lock-step under the same simulated clock / randomness.
"""
import gzip
import re

import clastic.middleware.stats as cstats
import clastic.middleware.cookie as ccookie
import secure_cookie.cookie as sc
from clastic import Application, Response, render_basic, GET, POST, redirect
from clastic.middleware import GzipMiddleware, HTTPCacheMiddleware, SimpleProfileMiddleware, GetParamMiddleware
from clastic.middleware.cookie import SignedCookieMiddleware
from clastic.middleware.url import ScriptRootMiddleware
from clastic.middleware.form import PostDataMiddleware
from clastic.middleware.context import SimpleContextProcessor, ContextProcessor
from clastic.errors import NotFound, Forbidden, Conflict, ServiceUnavailable, BadRequest

from sim.core.base import Check, RunResult, Streams, InvalidPlan, canon
from sim.core.gateway import make_environ, call_app, SimClient
from sim.core.seams import Seams, SimClock, TimeProxy, make_datetime_proxy
from sim.core.sched import BatonScheduler
from sim.core import runner
import os

WATCH = (os.path.join(runner.REPO, 'clastic') + os.sep, '<sinter')

BIG = b'abc' * 4000
RND = bytes((i * 7919 + (i >> 3) * 104729) % 251 for i in range(3000))   # poorly compressible, fixed
TEXT = ('héllo wörld ☃ ' * 300).encode('utf8')

POOL = {
    'gzip': lambda: GzipMiddleware(),
    'cache': lambda: HTTPCacheMiddleware(),
    'stats': lambda: cstats.StatsMiddleware(),
    'profile': lambda: SimpleProfileMiddleware(),
    'cookie': lambda: SignedCookieMiddleware(),
    'ctxproc': lambda: SimpleContextProcessor(),
    'ctxproc2': lambda: ContextProcessor(),
    # configured for names (options at their defaults: overwrite off) that every context of the scenario application
    # already carries -- with falsy values: the documented "existing keys are kept" makes them no-ops here
    'ctxproc-named': lambda: SimpleContextProcessor('zero', 'empty', 'flag', 'nothing', 'lst', k='processor-k'),
    'ctxproc2-named': lambda: ContextProcessor(defaults={'zero': 7, 'empty': 'filled', 'flag': True, 'nothing': 'x', 'lst': [1], 'n': None}),
    'ctxproc-lang': lambda: SimpleContextProcessor(k='en'),
    'getparam': lambda: GetParamMiddleware(['unread_q']),
    'postdata': lambda: PostDataMiddleware(['unread_p']),
    'scriptroot': lambda: ScriptRootMiddleware(),
}
PATHS = ['/ok', '/rnd', '/empty', '/stream', '/red', '/ctx', '/x404', '/r409', '/r404', '/nb', '/nbret', '/x503', '/boom', '/g',
         '/form', '/b', '/b/', '/missing', '/ctx?format=html', '/text', '/small', '/r400nb', '/boomkey', '/wzabort', '/wzkey',
         # boundary sizes (buffer and block boundaries of compressors) and their neighbours
         '/size/0', '/size/1', '/size/4096', '/size/8192', '/size/16384', '/size/32768', '/size/65535', '/size/65536', '/size/65537',
         '/size/131072', '/size/262144', '/size/1048576',
         # query parameters that belong to some middleware but do NOT trigger it
         '/ok?_prof_sort=tottime', '/ok?_prof_sort=', '/x404?_prof_sort=nfl', '/red?_prof=', '/ok?unread_q=1&format=zzz',
         '/ctx?_prof_sort=%00', '/ok?callback=x', '/vary', '/vary2', '/vary',
         # bodies the application coded itself; a read-only render context
         '/pre/deflate', '/pre/deflate', '/pre/gzip', '/pre/br', '/roctx', '/roctx',
         # a body handed through untouched; responses that carry no Content-Type at all
         '/prerendered', '/prerendered', '/prerendered', '/rawpost', '/rawpost', '/rawpost', '/bareresp', '/bareresp', '/ownlength', '/ownlength', '/rowctx', '/rowctx', '/passthrough', '/passthrough', '/nocontent', '/nocontent', '/notmodified', '/notype']
# Cookie headers a client may send although this server never set them (index 0 = the jar as it is)
COOKIES = [None, 'clastic_cookie=garbage', 'clastic_cookie=AAAA?k=InYi', 'clastic_cookie="\xc3\xa9?\xc3\xa9=1"', 'clastic_cookie=a?b',
           'clastic_cookie=aAAAA?k=InYi', 'clastic_cookie=AAAA?\xc3\xa9k=InYi&x=1', 'other=1; clastic_cookie=%%%', 'clastic_cookie=',
           'clastic_cookie=AAAA?k', 'clastic_cookie=' + 'A' * 5000]
AES = [('gzip', True), ('gzip;q=0', False), ('*', True), ('identity', False), (None, False), ('deflate, gzip;q=0.5', True),
       ('br', False), ('gzip, deflate, br', True), ('*;q=0', False)]
METHODS = ['GET', 'GET', 'GET', 'HEAD', 'POST', 'DELETE']


class RowLike(object):
    def __init__(self, items):
        self._items = list(items)

    def keys(self):
        return [k for k, _ in self._items]

    def __getitem__(self, key):
        for k, v in self._items:
            if k == key:
                return v
        raise IndexError(key)

    def __iter__(self):
        return iter(v for _, v in self._items)       # iterates VALUES, like sqlite3.Row

    def __len__(self):
        return len(self._items)


def routes():
    def ok():
        return Response(BIG)

    def rndb():
        return Response(RND, mimetype='application/octet-stream')

    def empty():
        return Response(b'')

    def small():
        return Response(b'tiny')

    def text():
        return Response(TEXT, mimetype='text/html')

    def stream():
        return Response((c for c in [b'x' * 900, b'y' * 900]))

    def red():
        return redirect('/ok')

    def ctx():
        return {'k': 'v' * 300, 'n': [1, 2, 3], 'zero': 0, 'empty': '', 'flag': False, 'nothing': None, 'lst': []}

    def x404():
        raise NotFound('nf ' * 100)

    def r409():
        return Conflict('cf ' * 100)

    def r404():
        return NotFound('returned nf ' * 50)

    def nb():
        raise Forbidden(is_breaking=False)

    def nbret():
        return NotFound('fallthrough ' * 40, is_breaking=False)

    def r400nb():
        return BadRequest(is_breaking=False)

    def x503():
        raise ServiceUnavailable()

    def boom():
        raise ValueError('boom ' * 50)

    def boomkey():
        raise KeyError('boomkey')

    def wzabort():
        # application code written against werkzeug: its own HTTP errors (abort(), a missing form key) are exceptions
        from werkzeug.exceptions import abort
        abort(403)

    def wzkey(request):
        return Response(request.args['no-such-key'])

    def form(request):
        return Response('form:%s' % sorted(request.form.items()))

    def vary():
        return Response(BIG, headers={'Vary': 'Cookie'})

    def vary2():
        return Response(TEXT, mimetype='text/html', headers={'Vary': 'Origin, Accept-Language'})

    def pre_deflate():
        import zlib
        # a pre-compressed asset with a weak setting: the coded bytes would still shrink under another compressor
        return Response(zlib.compress(BIG + RND + TEXT * 3, 1), mimetype='text/plain', headers={'Content-Encoding': 'deflate'})

    def pre_gzip():
        return Response(gzip.compress(TEXT * 4, 1), mimetype='text/html', headers={'Content-Encoding': 'gzip'})

    def pre_other():
        return Response(b'\x1b' + BIG[:5000], mimetype='text/plain', headers={'Content-Encoding': 'br'})

    def ro_ctx():
        import types
        # a read-only mapping as render context (it already carries every name a configured processor would add)
        return types.MappingProxyType({'k': 'v' * 300, 'n': [1, 2, 3], 'zero': 0, 'empty': '', 'flag': False, 'nothing': None, 'lst': []})

    def render_mapping(context):
        return Response(repr(sorted((k, repr(v)) for k, v in context.items())), mimetype='text/plain')

    def passthrough(request):
        from io import BytesIO
        from werkzeug.wsgi import wrap_file
        # a file-like handed straight to the server (sendfile): werkzeug must not touch the body
        return Response(wrap_file(request.environ, BytesIO(RND * 3)), mimetype='application/octet-stream', direct_passthrough=True)

    def nocontent():
        resp = Response(status=204)
        del resp.headers['Content-Type']        # nothing to describe
        return resp

    def notmodified():
        resp = Response(status=304)
        resp.headers.pop('Content-Type', None)
        resp.headers['ETag'] = '"v1"'
        return resp

    def notype():
        resp = Response(b'typeless body ' * 200)
        del resp.headers['Content-Type']
        return resp

    def ownlength():
        # a response type that manages Content-Length itself (werkzeug's documented switch)
        class OwnLength(Response):
            automatically_set_content_length = False
        body = b'own length ' * 900
        resp = OwnLength(body, mimetype='text/plain')
        resp.headers['Content-Length'] = str(len(body))
        return resp

    def rowctx():
        # a database row as render context: has keys() and item access, is no Mapping and cannot be assigned to
        return RowLike([('lang', 'en'), ('zero', 0), ('k', 'row')])

    def render_row(context):
        return Response(repr([(k, context[k]) for k in context.keys()]), mimetype='text/plain')

    def rawpost(request):
        # reads the request body itself
        return Response(b'raw:' + request.get_data(), mimetype='application/octet-stream')

    def bareresp():
        from werkzeug.wrappers import BaseResponse
        # the minimal response type (dispatch accepts any BaseResponse)
        return BaseResponse(BIG, mimetype='text/plain')

    prerendered = [b'<html>', b'pre-rendered page ' * 400, b'</html>']     # built once, handed out with every response

    def shared_chunks():
        return Response(prerendered, mimetype='text/html')

    def size(n):
        # n compressible bytes: sizes sit on powers of two and their neighbours (buffer boundaries)
        return Response((b'0123456789abcdef' * (n // 16 + 1))[:n], mimetype='text/plain')
    return [('/ok', ok), ('/rnd', rndb), ('/empty', empty), ('/small', small), ('/text', text), ('/stream', stream), ('/red', red),
            ('/ctx', ctx, render_basic), ('/x404', x404), ('/r409', r409), ('/r404', r404), ('/nb', nb), ('/nbret', nbret),
            ('/r400nb', r400nb), ('/x503', x503), ('/boom', boom), ('/boomkey', boomkey), ('/wzabort', wzabort), ('/wzkey', wzkey), GET('/g', ok), POST('/form', form), ('/pre/deflate', pre_deflate), ('/pre/gzip', pre_gzip), ('/pre/br', pre_other),
            ('/roctx', ro_ctx, render_mapping), ('/passthrough', passthrough), ('/ownlength', ownlength), ('/prerendered', shared_chunks), POST('/rawpost', rawpost), ('/bareresp', bareresp), ('/rowctx', rowctx, render_row), ('/nocontent', nocontent), ('/notmodified', notmodified),
            ('/notype', notype), ('/b/', ok), ('/size/<n:int>', size), ('/vary', vary), ('/vary2', vary2)]


class OsProxy(object):
    def urandom(self, n):
        return (b'twin-secret-' * n)[:n]

    def __getattr__(self, k):
        import os
        return getattr(os, k)


class RandProxy(object):
    def __init__(self):
        self.vals = []

    def random(self):
        return self.vals.pop(0) if self.vals else 0.5

    def __getattr__(self, k):
        import random
        return getattr(random, k)


def codings(header):
    return [c.strip().lower() for c in (header or '').split(',') if c.strip()]


def decode_all(body, cs):
    """Undo the content codings a client can undo (last applied first) -> (bytes, codings left over)."""
    import zlib
    cs = list(cs)
    while cs and cs[-1] in ('gzip', 'x-gzip', 'deflate', 'identity'):
        c = cs.pop()
        if c in ('gzip', 'x-gzip'):
            body = gzip.decompress(body)
        elif c == 'deflate':
            body = zlib.decompress(body)
    return body, cs


def normalise(status, body):
    if status == 500:
        return re.sub(rb'\(\d+ frames', b'(N frames', body)
    return body


class C15(Check):
    id = 'C15'
    world = 'twin'
    level = 'exploration'
    design_ref = 'DESIGN.md 3.9'
    runs = {'quick': 1200, 'thorough': 20000}
    shrink_lists = (('ops',), ('config', 'stack'))
    hashseeds = {'quick': ['1:OA'], 'thorough': ['1:OA', 2]}
    rule = ('a scenario application producing every response kind (Response small/large/compressible/random/empty/streamed, '
            'rendered context, redirect, raised/returned 4xx/5xx, non-breaking errors, uncaught exception, '
            'unknown URL, wrong method, HEAD) is built twice: bare and with a random stack of 1-6 built-in middlewares in default '
            'configuration; one client history (<= 40 requests, cookies carried, Accept-Encoding varied) is replayed against both '
            'in lock-step under one simulated clock with advances/jumps and adversarial random() draws. Oracle: same status and '
            'decoded body; gzip clauses. Non-trivial: request answered with an error/redirect/compressed body; '
            'distinct = (middleware, response kind, method, accepts-gzip, outcome).')
    assumptions = ('weakest fit of the claimed set (DESIGN 3.9): the deciding dimensions are history, clock and randomness of the '
                   'stateful middlewares, the oracle is a reference twin',
                   'Vary is demanded on compressed responses only; frame counts in 500 detail text are normalised',
                   'default configuration = constructor without arguments; extractors get a parameter nobody reads',
                   'the client never sends If-None-Match or the profiler trigger')
    components = {'real': ['all built-in middlewares (gzip, HTTP cache, stats, profile, cookie, context processors, extractors, script root)',
                           'clastic dispatch/errors/render_basic', 'werkzeug', 'secure_cookie'],
                  'stub': ['clock (stats + cookie seams)', 'random.random, os.urandom', 'client + WSGI server']}
    level_text = 'Lock-step differential simulation of client histories against a reference twin; sampled.'
    level_note = 'Trusted: the bare application as the reference; gzip.decompress.'
    required_probes = ('environ-without-optional-keys', 'unsolicited-cookie-header', 'long-history', 'concurrent-batch', 'gzip-compressed', 'gzip-not-accepted-identity', 'error-through-stack', 'null-route-through-stack',
                       'head-through-gzip', 'clock-jump-within-request', 'mw-gzip', 'mw-stats', 'mw-cookie', 'mw-cache')

    def generate(self, seed, tier):
        S = Streams(seed)
        c, rng, erng = S['config'], S['ops'], S['env']
        names = sorted(POOL)
        if c.random() < 0.3:
            stack = [c.choice(names)]
        else:
            stack = c.sample(names, c.randint(2, 6))
        ops = []
        for _ in range(rng.randint(6, 40)):
            ae = rng.randrange(len(AES))
            op = {'path': rng.choice(PATHS), 'method': rng.choice(METHODS), 'ae': ae, 'dt': 0, 'jitter': [], 'draws': [],
                  'cookie': rng.randrange(len(COOKIES)) if rng.random() < 0.15 else 0, 'lean_environ': rng.choice([False, False, False, False, False, False, True, 'empty']),
                  'ua': rng.choice([None, None, None, 'Mozilla/4.0 (compatible; MSIE 6.0; Windows NT 5.1)', 'Mozilla/5.0 (Windows NT 10.0; Trident/7.0; rv:11.0) like Gecko', 'curl/8'])}
            if erng.random() < 0.3:
                op['dt'] = erng.choice([0.001, 1, 59, 3600, -5, 86400 * 40])
            if erng.random() < 0.2:
                op['jitter'] = [erng.choice([0.0, 0.5, -2.0, 100.0]) for _ in range(erng.randint(1, 4))]
            if erng.random() < 0.2:
                op['draws'] = [erng.choice([0.0, 1.0 - 2 ** -53, erng.random()]) for _ in range(3)]
            ops.append(op)
            if rng.random() < 0.12:
                sch = S['sched']
                n = sch.choice([2, 2, 3])
                gran = sch.choice(['line', 'line', 'ins'])
                hi = 300 if gran == 'line' else 2000
                names_t = ['T%d' % k for k in range(n)]
                order = list(names_t)
                sch.shuffle(order)
                ops.append({'batch': [{'path': rng.choice(['/ok', '/text', '/ctx', '/rnd', '/x404', '/missing', '/small', '/ok']),
                                       'method': 'GET', 'ae': rng.choice([0, 0, 2, 4, 5])} for _ in range(n)],
                            'granularity': gran, 'order': order,
                            'preempts': sorted([sch.randint(1, hi), sch.choice(['demote'] + names_t)] for _ in range(sch.randint(1, 8)))})
                if 'stats' in stack and sch.random() < 0.5:
                    # meanwhile the operator reads or resets the statistics (the stats pages are mounted in the application
                    # with the middlewares only; their own answers are not compared with anything)
                    pth = sch.choice(['/_st/reset', '/_st/reset', '/_st/'])
                    ops[-1]['batch'][sch.randrange(n)] = {'path': pth, 'method': 'POST' if pth.endswith('reset') else 'GET', 'ae': 0, 'operator': True}
        return {'world': 'twin', 'seed': seed, 'config': {'stack': stack}, 'ops': ops}

    def extra_plans(self, tier, base_seed):
        """One long-lived application: a route is hit until its sample store is full (2**14), then requests
        whose random draws sit on the boundaries of the store's index buckets."""
        cap = 2 ** 14
        stacks = [['stats']] if tier == 'quick' else [['stats'], ['gzip', 'stats', 'cache'], ['cookie', 'stats', 'profile', 'scriptroot']]
        for stack in stacks:
            ops = [{'repeat': cap, 'path': '/ok', 'method': 'GET', 'ae': 4}]
            k = 0
            for j in (cap - 2, cap - 1, cap, cap + 1, cap + 2, 0, 1):
                for d in (0, 1, 2):
                    for half in (0.0, 0.5, 0.999):
                        k += 1
                        total = cap + k
                        r = min(1.0 - 2 ** -53, max(0.0, (j + half) / float(total + d)))
                        ops.append({'path': '/ok', 'method': 'GET', 'ae': 4, 'dt': 0, 'jitter': [], 'draws': [r, r, r]})
            ops.append({'path': '/x404', 'method': 'GET', 'ae': 4, 'dt': 0, 'jitter': [], 'draws': []})
            yield {'world': 'twin', 'seed': base_seed, 'config': {'stack': stack}, 'ops': ops, 'long_history': True}

    def execute(self, plan):
        res = RunResult()
        K = 'C15/'
        stack_names = plan['config']['stack']
        for n in stack_names:
            if n not in POOL:
                raise InvalidPlan('unknown middleware %r' % n)
            res.probe('mw-' + n)
        clock = SimClock()
        dtmod, _ = make_datetime_proxy(clock)
        rand = RandProxy()
        with Seams() as sm:
            sm.patch(cstats, 'time', TimeProxy(clock))
            sm.patch(cstats, 'datetime', dtmod)
            sm.patch(cstats, 'random', rand)
            sm.patch(ccookie, 'time', TimeProxy(clock))
            sm.patch(ccookie, 'os', OsProxy())
            sm.patch(sc, 'time', TimeProxy(clock))
            try:
                bare = Application(routes())
                full = Application(routes() + ([('/_st/', cstats.create_stats_app())] if 'stats' in stack_names else []),
                                   middlewares=[POOL[n]() for n in stack_names])
            except Exception as e:
                res.violate(K + 'setup-failed:%s' % type(e).__name__, '%r stack=%r' % (e, stack_names))
                return res
            c1, c2 = SimClient('bare'), SimClient('full')
            names = '+'.join(stack_names)
            def judge(e1, e2, op, step, ae, accepts):
                ctx = 'step %d %s %s Accept-Encoding=%r stack=%s' % (step, op['method'], op['path'], ae, names)
                kind = self.kind(op['path'], e1.code)
                res.ev(step, op['method'], op['path'], ae, '->', e1.code, e2.code, e2.header('Content-Encoding'))
                if e1.code != 200 or e2.header('Content-Encoding'):
                    res.nontrivial = True
                for n in stack_names:
                    res.sigs.add('%s|%s|%s|%s|%s|%s' % (n, kind, op['method'], accepts, e2.code, e2.header('Content-Encoding')))
                if e1.escaped is not None:
                    raise InvalidPlan('the bare twin let %r escape' % (e1.escaped,))
                if e2.escaped is not None:
                    res.violate(K + 'exception-escaped:%s@%s' % (type(e2.escaped).__name__, kind), ctx + ' -> %r' % (e2.escaped,), step)
                    return False
                if e1.code != e2.code:
                    culprit = self.culprit(e2)
                    res.violate(K + 'status-changed:%s-to-%s%s' % (e1.code, e2.code, culprit),
                                ctx + ' -> bare %s, with middlewares %s\n%s' % (e1.status, e2.status, e2.body[:500].decode('utf8', 'replace')), step)
                    return False
                if e1.code >= 400:
                    res.probe('error-through-stack')
                    if kind in ('unknown-url', 'wrong-method'):
                        res.probe('null-route-through-stack')
                enc = e2.header('Content-Encoding')
                sent = e2.body
                dec = sent
                c1, c2 = codings(e1.header('Content-Encoding')), codings(enc)
                bare = e1.body
                if c1:
                    # the APPLICATION coded this body itself (pre-compressed assets): "decoded body" = all codings undone
                    res.probe('application-sets-own-content-encoding')
                added = list(c2)
                for c in c1:
                    if c in added:
                        added.remove(c)
                if [c for c in added if c not in ('gzip', 'identity')] or len(c2) < len(c1):
                    res.violate(K + 'unexpected-content-encoding', ctx + ' -> %r (the bare application sends %r)' % (enc, e1.header('Content-Encoding')), step)
                    return False
                if 'gzip' in added:
                    res.probe('gzip-compressed')
                    if not accepts:
                        res.violate(K + 'gzip/sent-to-client-not-accepting', ctx + ' -> Content-Encoding: gzip', step)
                        return False
                    if 'accept-encoding' not in (e2.header('Vary') or '').lower():
                        res.violate(K + 'gzip/no-vary', ctx + ' -> Vary: %r' % e2.header('Vary'), step)
                        return False
                if op['method'] != 'HEAD':
                    try:
                        dec, left2 = decode_all(sent, c2)
                    except Exception as e:
                        res.violate(K + 'gzip/not-decodable@%s' % kind, ctx + ' -> Content-Encoding %r: %r' % (enc, e), step)
                        return False
                    bare, left1 = decode_all(e1.body, c1)
                    if left1 != left2:
                        res.violate(K + 'unexpected-content-encoding', ctx + ' -> %r (the bare application sends %r)' % (enc, e1.header('Content-Encoding')), step)
                        return False
                enc = 'gzip' if 'gzip' in added else None
                if 'gzip' in stack_names and not accepts:
                    res.probe('gzip-not-accepted-identity')
                if 'gzip' in stack_names and op['method'] == 'HEAD':
                    res.probe('head-through-gzip')
                if normalise(e1.code, dec) != normalise(e1.code, bare):
                    res.violate(K + 'body-changed@%s%s' % (kind, ':gzip' if enc else ''),
                                ctx + ' -> decoded body differs: bare %d bytes %r..., with middlewares %d bytes %r...'
                                % (len(e1.body), e1.body[:60], len(dec), dec[:60]), step)
                    return False
                cl = e2.header('Content-Length')
                if op['method'] != 'HEAD' and cl is not None and int(cl) != len(sent):
                    res.violate(K + 'content-length-mismatch@%s%s' % (kind, ':gzip' if enc else ''),
                                ctx + ' -> Content-Length %s but %d bytes sent' % (cl, len(sent)), step)
                    return False
                if enc == 'gzip' and cl is None and op['method'] != 'HEAD':
                    res.violate(K + 'gzip/no-content-length', ctx, step)
                    return False
                if (e1.header('Location') or None) != (e2.header('Location') or None):
                    res.violate(K + 'location-changed', ctx + ' -> %r vs %r' % (e1.header('Location'), e2.header('Location')), step)
                    return False
                return True

            def request_env(op, client):
                ae, accepts = AES[op['ae']]
                hdr = {}
                if ae is not None:
                    hdr['Accept-Encoding'] = ae
                ck = client.cookie_header()
                if op.get('cookie'):
                    ck = COOKIES[op['cookie'] % len(COOKIES)]
                if ck:
                    hdr['Cookie'] = ck
                if op.get('ua'):
                    hdr['User-Agent'] = op['ua']
                body = b'unread_p=pv&x=1' if op['method'] == 'POST' else b''
                if op['method'] == 'POST':
                    hdr['Content-Type'] = 'application/x-www-form-urlencoded'
                env = make_environ(op['method'], op['path'], headers=hdr, body=body)
                if op.get('lean_environ'):
                    # a server that leaves out what PEP 3333 lets it leave out: empty SCRIPT_NAME / QUERY_STRING,
                    # CONTENT_TYPE / CONTENT_LENGTH of a request without body
                    if not env.get('SCRIPT_NAME'):
                        env.pop('SCRIPT_NAME', None)
                    if not env.get('QUERY_STRING'):
                        env.pop('QUERY_STRING', None)
                    if op['method'] != 'POST':
                        env.pop('CONTENT_TYPE', None)
                        env.pop('CONTENT_LENGTH', None)
                        if op.get('lean_environ') == 'empty':
                            env['CONTENT_LENGTH'] = ''        # "may be empty or absent" (PEP 3333)
                            env['CONTENT_TYPE'] = ''
                    res.probe('environ-without-optional-keys')
                return env

            for step, op in enumerate(plan['ops']):
                if 'repeat' in op:
                    ae, accepts = AES[op['ae']]
                    e1 = call_app(bare, request_env(op, c1), validate=False)
                    bad = None
                    for n in range(op['repeat']):
                        e2 = call_app(full, request_env(op, c2), validate=False)
                        if e2.escaped is not None or e2.code != e1.code or e2.body != e1.body:
                            bad = (n, e2)
                            break
                    res.probe('long-history')
                    res.ev(step, 'repeat', op['repeat'], op['path'], '->', e1.code, 'deviation', bad[0] if bad else None)
                    if bad:
                        res.violate(K + 'status-changed:%s-to-%s%s' % (e1.code, bad[1].code, self.culprit(bad[1])),
                                    'request #%d of %d identical %s %s: bare %s, with middlewares %s %r\n%s'
                                    % (bad[0] + 1, op['repeat'], op['method'], op['path'], e1.status, bad[1].status, bad[1].escaped,
                                       bad[1].body[:400].decode('utf8', 'replace')), step)
                        break
                    continue
                if 'batch' in op:
                    # several clients at once on the application WITH the middlewares; the twin serves them one by one
                    reqs = op['batch']
                    alone = [call_app(bare, request_env(r, c1), validate=False) for r in reqs]
                    got = {}
                    tasks = {}
                    for k, r in enumerate(reqs):
                        env = request_env(r, c2)
                        tasks['T%d' % k] = (lambda k=k, env=env: got.__setitem__(k, call_app(full, env, validate=False)))
                    t0 = clock.now
                    sched = BatonScheduler(op.get('order', sorted(tasks)), op.get('preempts', []), op.get('granularity', 'line'), WATCH)
                    sched.run(tasks)
                    clock.now = t0
                    res.fire('preempt', len(sched.switches))
                    res.probe('concurrent-batch')
                    res.nontrivial = True
                    if sched.errors:
                        res.violate(K + 'thread-raised:%s' % type(list(sched.errors.values())[0]).__name__, '%r' % (sched.errors,), step)
                        break
                    ok = True
                    for k, r in enumerate(reqs):
                        ae, accepts = AES[r['ae']]
                        if r.get('operator'):
                            res.probe('operator-resets-statistics-during-requests')
                            continue
                        if not judge(alone[k], got[k], r, step, ae, accepts):
                            ok = False
                            break
                    if not ok:
                        break
                    continue
                clock.advance(op.get('dt', 0))
                ae, accepts = AES[op['ae']]
                out = []
                for app, client in ((bare, c1), (full, c2)):
                    env = request_env(op, client)
                    if op.get('cookie'):
                        res.probe('unsolicited-cookie-header')
                    t0 = clock.now
                    if app is full:
                        clock.jitter = list(op.get('jitter') or [])
                        rand.vals = list(op.get('draws') or [])
                        if any(j < 0 for j in clock.jitter):
                            res.fire('clock_jitter_within_request')
                            res.probe('clock-jump-within-request')
                    ex = call_app(app, env, validate=False)
                    clock.jitter = []
                    clock.now = t0      # both twins see the same instant
                    client.absorb(ex)
                    out.append(ex)
                e1, e2 = out
                if not judge(e1, e2, op, step, ae, accepts):
                    break
        res.steps = len(plan['ops'])
        res.sim_time = clock.covered
        return res

    @staticmethod
    def kind(path, code):
        p = path.split('?')[0]
        if p.startswith('/size/'):
            return 'size'
        return {'/missing': 'unknown-url', '/g': 'get-only', '/form': 'post-only'}.get(p, p.strip('/') or 'root') if not (
            p in ('/g', '/form') and code == 405) else 'wrong-method'

    @staticmethod
    def culprit(ex):
        m = re.search(rb"/middleware/(\w+)\.py", ex.body)
        return ':' + m.group(1).decode() if m else ''


CHECK = C15()
