"""C08 -- every request gets a response; uncaught failures become the handler's
500 (chain world: fault kind x position x error handler, histories, recovery).

plan = {config: {mws:[{name, level, phases}], ep_returns, has_render, handler},
        ops: [{method, path, accept, faults: {function: {beh, exc|value, msg, breaking}}}]}
"""
from clastic import Application, Route, POST, GET
from clastic.utils import Redirector
from clastic import errors as cerrors
from clastic.errors import ErrorHandler, ContextualErrorHandler, BadGateway

from sim.core.base import Check, RunResult, Streams, canon
from sim.core.gateway import make_environ, call_app
from sim.worlds.chain import RT, make_function, make_mw_type, EXC_TYPES, OnionModel, dispatch_outcome
from sim.core.sched import BatonScheduler
from sim.core import runner
import os

WATCH = (os.path.join(runner.REPO, 'clastic') + os.sep, '<sinter', '<sim chain')

PHASES = ('request', 'endpoint', 'render')
HTTP_CLASSES = sorted(set(cerrors.__all__) | set(['NotFound', 'InternalServerError']))
HTTP_CLASSES = [n for n in HTTP_CLASSES if isinstance(getattr(cerrors, n, None), type)
                and issubclass(getattr(cerrors, n), cerrors.HTTPException)]
VALUES = ['resp', 'resp', 'baseresp', 'str', 'none', 'number', 'dict', 'bytes', 'list']
MSGS = {'half-emoji': 'cut \ud83d here', 'plain': 'injected failure', 'nonascii': 'défaillance ☃ 中文', 'huge': 'x' * (1 << 20),
        'unprintable': 'ctl\x00\x01\x1b[31m\x7f\udcff', 'braces': '{0} {x} %s %(y)s </pre><script>', 'empty': ''}
# round 14: a huge message of multi-byte characters (9 bytes per group: a cut at any fixed BYTE offset lands inside a
# character). Not a key of MSGS - it replaces 'huge' in half of the cases as a function of a draw that exists anyway, so
# every other dimension of a seed stays what it was.
HUGE_NONASCII = 'a' + '\xe9\u2603\u4e2dx' * 6000
HANDLERS = ['default', 'default', 'debug', 'debug', 'reraise', 're_raises', 're_raises_http', 're_other', 'debug_plain_types', 'default_ctx_types']
ACCEPTS = [None, 'text/html', 'application/json', 'application/xml', 'text/plain', '*/*', 'image/png', 'garbage;;q=x']


ODD_SEGMENTS = ['/num/7', '/num/abc', '/num/+%205', '/num/-3', '/num/1_0', '/num/' + '9' * 5000, '/num/\uff11\uff12', '/num/0x10', '/num/1e3', '/num/%20',
                '/fl/1.5', '/fl/nan/a/b', '/fl/1e5', '/fl/1_0.5', '/fl/inf', '/fl/-', '/fl/.', '/fl/1.2.3', '/fl/' + '1' * 400 + 'e400', '/fl/%2B1.0/x']


class CallableEndpoint(object):
    def __call__(self):
        from clastic import Response
        return Response('from a callable object')


def make_decliner():
    # ONE pre-built "declined" error per application that its code hands back again and again
    # (per application: an error object remembers the route it first came from)
    shared = cerrors.NotFound('declined, try the next route', is_breaking=False)

    def decline_with_shared_error():
        return shared
    return decline_with_shared_error


class RaisingRenderErrorHandler(ErrorHandler):
    def render_error(self, request, _error):
        raise RuntimeError('render_error is broken')


class RaisingHTTPRenderErrorHandler(ErrorHandler):
    """render_error fails -- by raising an HTTPException of its own (e.g. its error page is missing)"""
    def render_error(self, request, _error):
        from clastic.errors import NotFound
        raise NotFound('the custom error page is missing')


class OtherErrorHandler(ErrorHandler):
    def render_error(self, request, _error):
        return BadGateway(detail='replaced %s' % _error.code)


class DebugPlainTypesHandler(ContextualErrorHandler):
    """the debug handler, told (documented attributes) to build the plain error types"""
    server_error_type = cerrors.InternalServerError
    not_found_type = cerrors.NotFound


class DefaultContextualTypesHandler(ErrorHandler):
    """the default handler, told to build the contextual 404"""
    not_found_type = cerrors.ContextualNotFound


class ReraisingErrorHandler(ErrorHandler):
    def __init__(self, **kw):
        kw.setdefault('reraise_uncaught', True)
        ErrorHandler.__init__(self, **kw)


HANDLER_TYPES = {'debug_plain_types': DebugPlainTypesHandler, 'default_ctx_types': DefaultContextualTypesHandler, 'reraise': ReraisingErrorHandler, 're_raises': RaisingRenderErrorHandler,
                 're_raises_http': RaisingHTTPRenderErrorHandler, 're_other': OtherErrorHandler}


def make_handler(kind):
    if kind == 'default':
        return None, False
    if kind == 'debug':
        return None, True
    if kind == 'debug_plain_types':
        return DebugPlainTypesHandler(), False
    if kind == 'default_ctx_types':
        return DefaultContextualTypesHandler(), False
    if kind == 'reraise':
        return ErrorHandler(reraise_uncaught=True), False
    if kind == 're_raises':
        return RaisingRenderErrorHandler(), False
    if kind == 're_raises_http':
        return RaisingHTTPRenderErrorHandler(), False
    if kind == 're_other':
        return OtherErrorHandler(), False
    raise ValueError(kind)


def functions(cfg):
    apps = [m for m in cfg['mws'] if m['level'] == 'app']
    order = apps + [m for m in cfg['mws'] if m['level'] == 'route']
    out = dict((ph, [m['name'] + '.' + ph for m in order if ph in m['phases']]) for ph in PHASES)
    # the second route carries the application-level middlewares only
    out.update(dict((ph + '_app', [m['name'] + '.' + ph for m in apps if ph in m['phases']]) for ph in PHASES))
    return out


def build_app(cfg):
    def objs(level):
        return [make_mw_type('C08' + m['name'], True, True, dict((ph, {}) for ph in m['phases']))(m['name'])
                for m in cfg['mws'] if m['level'] == level]
    ep = make_function('EP', False, default_value=cfg['ep_returns'], bound=False)
    rn = make_function('RN', False, params_req=('context',), default_value='resp', bound=False) if cfg['has_render'] else None
    eh, debug = make_handler(cfg['handler'])
    kw = {'debug': True} if debug else {}
    app_type = Application
    via = cfg.get('handler_via', 'argument')
    if via != 'argument' and cfg['handler'] in HANDLER_TYPES:
        # the documented other way to install a handler: an Application subclass naming its handler TYPE
        eh = None
        attr = 'default_debug_error_handler_type' if via == 'debug_class_attr' else 'default_error_handler_type'
        app_type = type('SimApplication', (Application,), {attr: HANDLER_TYPES[cfg['handler']]})
        kw = {'debug': True} if via == 'debug_class_attr' else {}
    return app_type([Route('/x', ep, rn, middlewares=objs('route')),
                        POST('/only-post', make_function('EP2', False, default_value='resp', bound=False)),
                        # two method-restricted routes on one path: a wrong-method request touches both
                        GET('/item', make_function('ITEM_GET', False, default_value='resp', bound=False)),
                        POST('/item', make_function('ITEM_POST', False, default_value='resp', bound=False)),
                        # a route that always declines with the shared error object, followed by one that answers POST only
                        # typed URL bindings: a segment the pattern lets through is not necessarily one the converter takes
                        ('/num/<n:int>', make_function('NUM', False, params_req=('n',), default_value='resp', bound=False)),
                        ('/fl/<x:float>/<rest*>', make_function('FL', False, params_req=('x', 'rest'), default_value='resp', bound=False)),
                        # endpoints that are callable OBJECTS (no __name__): clastic's own Redirector, a class instance
                        ('/goto', Redirector('/x', code=302)), ('/obj', CallableEndpoint()),
                        ('/decl', make_decliner()),
                        POST('/decl', make_function('DECL_POST', False, default_value='resp', bound=False))],
                       middlewares=objs('app'), error_handler=eh, **kw)


def expected(cfg, op):
    """-> ('status', code) | ('escape', 'injected'|'TypeError')   -- from the property text."""
    handler = cfg['handler']

    def http(code):
        return ('status', 502 if handler == 're_other' else code)

    def uncaught(what):
        if handler == 'reraise':
            return ('escape', what)
        return http(500)
    path, method = op['path'], op['method']
    f = functions(cfg)
    app_fn = {'request': f['request_app'], 'endpoint': f['endpoint_app'], 'render': f['render_app']}
    if path == '/only-post':
        if method != 'POST':
            return http(405)
        faults = dict((('EP' if k == 'EP2' else k), v) for k, v in op['faults'].items() if k not in ('EP', 'RN'))
        out = dispatch_outcome(app_fn, app_fn, faults, 'resp', False)
    elif path == '/item':
        if method not in ('GET', 'HEAD', 'POST'):
            return http(405)
        leaf = 'ITEM_POST' if method == 'POST' else 'ITEM_GET'
        faults = dict((('EP' if k == leaf else k), v) for k, v in op['faults'].items() if k not in ('EP', 'RN', 'EP2'))
        out = dispatch_outcome(app_fn, app_fn, faults, 'resp', False)
    elif path == '/decl':
        return ('status', 200) if method == 'POST' else http(404)
    elif path == '/goto':
        return ('status', 302)
    elif path == '/obj':
        return ('status', 200)
    elif path.startswith(('/num/', '/fl/')):
        return ('status-in', (200, 404) if handler != 're_other' else (200, 502))     # which of the two is C04/C05 territory
    elif path != '/x':
        return http(404)
    else:
        route_fn = {'request': f['request'], 'endpoint': f['endpoint'], 'render': f['render']}
        out = dispatch_outcome(route_fn, app_fn, dict((k, v) for k, v in op['faults'].items() if k != 'EP2'),
                               cfg['ep_returns'], cfg['has_render'])
    if out[0] == 'resp':
        return ('status', out[1])
    if out[0] == 'http':
        return http(getattr(cerrors, out[1]).code)
    return uncaught(out[1])


class C08(Check):
    id = 'C08'
    world = 'chain'
    level = 'fault_enumeration'
    design_ref = 'DESIGN.md 3.4'
    runs = {'quick': 2000, 'thorough': 30000}
    shrink_lists = (('ops',), ('config', 'mws'))
    hashseed_sample = {'quick': 150, 'thorough': 1200}     # also run under python -O (asserts stripped, __debug__ false)
    rule = ('generated stacks (0-4 middlewares, app/route level, any phases) x error handler {default, debug, re-raising, '
            'broken render_error, render_error returning another error}, installed as instance or as handler TYPE on an Application subclass, '
            'under an interpreter-wide traceback limit {unset, 0, 1, -1, 3}; per stack EVERY chain position is made faulty once '
            '(behaviour drawn from: raise 15 exception types with plain/non-ASCII/1MB/unprintable messages, raise/return every '
            'exported HTTPException class breaking and non-breaking, return Response/str/None/number/dict/bytes/list early or after next) '
            'inside a history that interleaves healthy probes (200/404/405) to assert recovery. Non-trivial: a fault fired; '
            'distinct = (handler, position phase, behaviour, value/exception class, outcome).')
    assumptions = ('BaseExceptions that are not Exceptions (SystemExit, KeyboardInterrupt) are outside the statement',
                   'a render_error that returns a non-response object is not generated (not stated by the property)')
    components = {'real': ['clastic.application.dispatch', 'clastic.errors (ErrorHandler, ContextualErrorHandler, all HTTPException classes)',
                           'BoundRoute.execute/execute_error', 'sinter chains'],
                  'stub': ['application code with cooperative fault points', 'WSGI server/client (PEP 3333 monitor)']}
    level_text = ('Every position of each generated stack is faulted once per run (fault_enumeration over positions); behaviours, '
                  'handlers, messages and histories are sampled by seed; each faulty request is followed by recovery probes.')
    level_note = 'Trusted: the outcome model (~60 lines, from the property text); the gateway monitor.'
    required_probes = ('warnings-of-a-category-escalated', 'first-time-import-during-a-request', 'error-log-stream-in-a-narrow-encoding', 'first-requests-of-a-process', 'typed-binding-odd-segment', 'concurrent-faulted-requests', 'handler-installed-as-type-on-application-subclass', 'tracebacklimit-set', 'debug-handler-without-frames', 'other-application-in-process', 'escaped-original-exception', 'render-error-fallback', 'handler-replaced-error', 'recovered',
                       'nonbreaking-http', 'huge-message')

    def gen_config(self, rng):
        mws = []
        for i in range(rng.randint(0, 4)):
            phases = [ph for ph in PHASES if rng.random() < 0.6] or [rng.choice(PHASES)]
            mws.append({'name': 'm%d' % i, 'level': rng.choice(['app', 'route']), 'phases': phases})
        return {'mws': mws, 'ep_returns': rng.choice(['dict', 'dict', 'resp']), 'has_render': rng.random() < 0.75,
                'handler': rng.choice(HANDLERS), 'handler_via': rng.choice(['argument', 'argument', 'class_attr', 'debug_class_attr']),
                # the interpreter-wide traceback depth limit an operator may have set (0 = no frames recorded)
                'tracebacklimit': rng.choice([None, None, None, None, 0, 0, 1, -1, 3]),
                # the server's error log (wsgi.errors): a text stream that takes anything, or one in ASCII / strict UTF-8
                'errors_stream': rng.choice([None, None, 'ascii', 'utf8']),
                # the process escalates warnings of some category to errors (-W error::RuntimeWarning, a test runner's setting)
                'warnings_error': rng.choice([None, None, None, 'UserWarning', 'RuntimeWarning'])}

    def gen_fault(self, rng, is_leaf):
        msg = rng.choice(sorted(MSGS))
        r = rng.random()
        if msg == 'huge' and int(r * 1000) % 2:
            msg = 'huge-nonascii'
        if r < 0.3:
            f = {'beh': 'raise' if is_leaf else rng.choice(['raise_before', 'raise_after']), 'exc': rng.choice(sorted(EXC_TYPES)), 'msg': msg}
        elif r < 0.55:
            f = {'beh': 'raise' if is_leaf else rng.choice(['raise_before', 'raise_after']), 'exc': 'http:' + rng.choice(HTTP_CLASSES),
                 'msg': msg, 'breaking': rng.random() < 0.6}
            if rng.random() < 0.5:
                f['exc_info'] = 'proper'
        elif r < 0.75:
            f = {'beh': 'return' if is_leaf else rng.choice(['return_early', 'replace_after']), 'value': 'http:' + rng.choice(HTTP_CLASSES),
                 'msg': msg, 'breaking': rng.random() < 0.6}
            if rng.random() < 0.5:
                f['exc_info'] = 'proper'
        else:
            f = {'beh': 'return' if is_leaf else rng.choice(['return_early', 'replace_after']), 'value': rng.choice(VALUES)}
            if f['value'] in ('resp', 'baseresp'):
                f['status'] = rng.choice([200, 200, 201, 202, 302, 404, 500, 503])
        return f

    def generate(self, seed, tier):
        S = Streams(seed)
        cfg = self.gen_config(S['config'])
        fn = functions(cfg)
        rng, frng = S['ops'], S['faults']
        positions = fn['request'] + fn['endpoint'] + ['EP'] + fn['render'] + (['RN'] if cfg['has_render'] else []) + ['EP2', 'ITEM_GET', 'ITEM_POST']
        frng.shuffle(positions)
        ops = []

        def req(faults):
            path = '/only-post' if 'EP2' in faults else '/item' if ('ITEM_GET' in faults or 'ITEM_POST' in faults) else '/x'
            method = ('POST' if path == '/only-post' else 'POST' if 'ITEM_POST' in faults else rng.choice(['GET', 'HEAD']) if path == '/item'
                      else rng.choice(['GET', 'GET', 'POST', 'HEAD']))
            return {'method': method, 'path': path, 'accept': rng.choice(ACCEPTS), 'faults': faults}
        for pos in positions:
            ops.append(req({pos: self.gen_fault(frng, pos in ('EP', 'RN', 'EP2', 'ITEM_GET', 'ITEM_POST'))}))
            if rng.random() < 0.3:
                ops.append({'method': rng.choice(['GET', 'DELETE', 'PUT']), 'path': rng.choice(['/nope', '/only-post', '/x/y', '/item', '/item', '/decl', '/goto', '/obj', '/nope/deeper']),
                            'accept': rng.choice(ACCEPTS), 'faults': {}})
            if rng.random() < 0.25:
                ops.append({'method': 'GET', 'path': rng.choice(ODD_SEGMENTS), 'accept': rng.choice(ACCEPTS), 'faults': {}})
        # something happens to ANOTHER application of the same process (default handler, dev server with debugger)
        if rng.random() < 0.5:
            ops.insert(rng.randint(0, len(ops)), {'other_app': rng.choice(['serve-debugger', 'serve-plain', 'construct-debug', 'reraise-handler'])})
        if rng.random() < 0.6:
            # several requests, each with its own fault, in flight on the one application at the same time
            sch = S['sched']
            for _ in range(sch.choice([1, 1, 2])):
                n = sch.choice([2, 2, 3])
                batch = []
                for _i in range(n):
                    if sch.random() < 0.7:
                        pos = sch.choice(positions)
                        batch.append(req({pos: self.gen_fault(frng, pos in ('EP', 'RN', 'EP2', 'ITEM_GET', 'ITEM_POST'))}))
                    else:
                        batch.append({'method': sch.choice(['GET', 'DELETE', 'POST']), 'path': sch.choice(['/nope', '/only-post', '/item', '/decl', '/x']),
                                      'accept': sch.choice(ACCEPTS), 'faults': {}})
                for rq in batch:
                    # application code that imports a module on first use, while other requests are in flight
                    if sch.random() < 0.3:
                        rq['imports'] = True
                gran = sch.choice(['line', 'line', 'ins'])
                hi = 300 if gran == 'line' else 2000
                names = ['T%d' % i for i in range(n)]
                order = list(names)
                sch.shuffle(order)
                ops.insert(rng.randint(0, len(ops)), {'conc': batch, 'granularity': gran, 'order': order,
                                                      'preempts': sorted([sch.randint(1, hi), sch.choice(['demote'] + names)] for _ in range(sch.randint(1, 6)))})
        for _ in range(2 if tier == 'quick' else 4):
            two = frng.sample(positions, min(2, len(positions)))
            ops.append(req(dict((p, self.gen_fault(frng, p in ('EP', 'RN', 'EP2'))) for p in two if p not in ('EP2', 'ITEM_GET', 'ITEM_POST'))))
        return {'world': 'chain', 'seed': seed, 'config': cfg, 'ops': ops}

    # ------------------------------------------------------------------
    def one(self, app, cfg, op, seq, res, tag):
        faults = {}
        for name, f in op['faults'].items():
            f = dict(f)
            if 'msg' in f:
                f['msg'] = HUGE_NONASCII if f['msg'] == 'huge-nonascii' else MSGS[f['msg']]
                if f['msg'] in (MSGS['huge'], HUGE_NONASCII):
                    res.probe('huge-message')
            faults[name] = f
        RT.reset(faults)
        RT.set_seq(seq)
        hdr = {'Accept': op['accept']} if op.get('accept') else {}
        ex = call_app(app, make_environ(op['method'], op['path'], headers=hdr, body=b'b' if op['method'] == 'POST' else b'',
                                        errors_stream=cfg.get('errors_stream')))
        return ex

    def extra_plans(self, tier, base_seed):
        """The first requests a PROCESS serves (a freshly started interpreter per plan): two failing requests in flight at
        once, the first one parked at its k-th line -- whatever the framework sets up on first use is being set up right
        then.  Where "right then" is comes from a calibration (again in a fresh interpreter): the batch is served twice
        without pre-emption, the lines the first client passes only the FIRST time are the first-use code; the client is
        parked at each of them (and right behind), plus at a few fixed depths."""
        from concurrent.futures import ThreadPoolExecutor
        from sim.core import freshproc
        rng = Streams(base_seed)['fresh']
        fixed = [15, 60, 150, 300]
        batches = [('text/html', 'EP', '/nope'), ('text/html', '/nope', 'EP'), ('application/json', 'EP', '/nope'), ('text/html', 'EP', 'EP'), ('application/xml', '/nope', '/only-post'), (None, '/x', 'EP')]
        if tier != 'quick':
            batches += [(acc, a, b) for acc in ('text/html', 'application/json', 'text/plain', None) for a, b in (('EP', '/only-post'), ('/only-post', 'EP'), ('/nope', '/nope'), ('RN', 'EP'))]
        handlers = ['debug', 'debug', 'default'] if tier == 'quick' else ['debug', 'default', 'debug_plain_types', 'default_ctx_types', 're_raises']
        specs = []
        for j, (accept, a, b) in enumerate(batches):
            for handler in (handlers[j % len(handlers)],) if tier == 'quick' else handlers:
                cfg = {'mws': [], 'ep_returns': 'dict', 'has_render': True, 'handler': handler, 'handler_via': 'argument', 'tracebacklimit': None}

                def rq(what):
                    if what in ('EP', 'RN'):
                        return {'method': 'GET', 'path': '/x', 'accept': accept, 'faults': {what: {'beh': 'raise', 'exc': rng.choice(sorted(EXC_TYPES)), 'msg': 'plain'}}}
                    return {'method': 'GET', 'path': what, 'accept': accept, 'faults': {}}
                specs.append((cfg, [rq(a), rq(b)], j % 2 == 0 or handler != 'debug'))

        def calibrate(spec):
            cfg, batch, late = spec
            op = {'conc': batch, 'granularity': 'line', 'order': ['T0', 'T1'], 'preempts': [], 'trace': True}
            try:
                r = freshproc.run('C08', {'world': 'chain', 'seed': base_seed, 'config': cfg, 'ops': [op, op], 'late_baseline': late})
            except Exception:
                return []       # (the plans with fixed depths are made all the same: what goes wrong is the executor's to report)
            tr = r.extra.get('traces', [])
            if len(tr) != 2:
                return []
            first = tr[0]['trace'][:tr[0]['finish'].get('T0', 0)]
            warm = set(tr[1]['trace'])
            cold = [i + 1 for i, loc in enumerate(first) if loc not in warm]
            ks = sorted(set(cold) | set(k + 1 for k in cold))
            cap = 12 if tier == 'quick' else 80
            if len(ks) > cap:
                ks = [ks[(i * len(ks)) // cap] for i in range(cap)]
            return ks
        with ThreadPoolExecutor(max_workers=8) as tp:
            found = list(tp.map(calibrate, specs))
        for (cfg, batch, late), ks in zip(specs, found):
            for k in sorted(set(ks) | set(fixed if tier != 'quick' else fixed[:2])):
                yield {'world': 'chain', 'seed': base_seed, 'config': cfg, 'fresh_process': True, 'first_use_steps': len(ks), 'late_baseline': late,
                       'ops': [{'conc': batch, 'granularity': 'line', 'order': ['T0', 'T1'], 'preempts': [[k, 'T1']]}]}

    def execute(self, plan):
        if plan.get('fresh_process'):
            from sim.core import freshproc
            res = freshproc.run('C08', plan)
            res.probe('first-requests-of-a-process')
            if plan.get('first_use_steps'):
                res.probe('first-use-code-located')
            return res
        res = RunResult()
        cfg = plan['config']
        K = 'C08/'
        import sys
        had = getattr(sys, 'tracebacklimit', None)
        try:
            if cfg.get('errors_stream'):
                res.probe('error-log-stream-in-a-narrow-encoding')
            if cfg.get('tracebacklimit') is not None:
                sys.tracebacklimit = cfg['tracebacklimit']
                res.probe('tracebacklimit-set')
                if cfg['handler'] == 'debug' and cfg['tracebacklimit'] <= 0:
                    res.probe('debug-handler-without-frames')
            from sim.core.seams import WarningsEscalated
            if cfg.get('warnings_error'):
                res.probe('warnings-of-a-category-escalated')
            with WarningsEscalated([cfg.get('warnings_error')]):
                return self._execute(plan, res, cfg, K)
        finally:
            if had is None:
                if hasattr(sys, 'tracebacklimit'):
                    del sys.tracebacklimit
            else:
                sys.tracebacklimit = had

    def _execute(self, plan, res, cfg, K):
        try:
            app = build_app(cfg)
        except Exception as e:
            res.violate(K + 'setup-failed:%s' % type(e).__name__, '%r %s' % (e, canon(cfg)))
            return res
        if cfg.get('handler_via', 'argument') != 'argument' and cfg['handler'] in HANDLER_TYPES:
            res.probe('handler-installed-as-type-on-application-subclass')
        probes = [{'method': 'GET', 'path': '/x', 'accept': None, 'faults': {}},
                  {'method': 'GET', 'path': '/nope', 'accept': 'application/json', 'faults': {}},
                  {'method': 'GET', 'path': '/only-post', 'accept': None, 'faults': {}},
                  {'method': 'GET', 'path': '/item', 'accept': None, 'faults': {}},
                  {'method': 'POST', 'path': '/item', 'accept': None, 'faults': {}},
                  {'method': 'PUT', 'path': '/item', 'accept': None, 'faults': {}},
                  {'method': 'POST', 'path': '/decl', 'accept': None, 'faults': {}},     # answered by the second route
                  {'method': 'GET', 'path': '/decl', 'accept': None, 'faults': {}}]      # nobody answers: the shared error is the response

        def snapshot(seq):
            out = []
            for p in probes:
                ex = self.one(app, cfg, p, seq, res, 'probe')
                out.append((ex.code, type(ex.escaped).__name__ if ex.escaped else None,
                            ex.header('X-Sim-From'), [e[0] for e in ex.errors]))
            return out
        # (late_baseline: the concurrent batch is the very first thing the application -- and the process -- serves;
        # what the healthy probes answer is recorded right after it)
        baseline = snapshot(-1) if not plan.get('late_baseline') else None
        res.ev('baseline', canon(baseline))
        for step, op in enumerate(plan['ops']):
            if 'other_app' in op:
                self.other_app(op['other_app'], res)
                res.ev(step, 'other_app', op['other_app'])
                snap = snapshot(2000 + step)
                if snap != baseline:
                    res.violate(K + 'influenced-by-other-application:%s' % op['other_app'],
                                'step %d: after another application was %s, the healthy probes answer %s, before %s'
                                % (step, op['other_app'], snap, baseline), step)
                    break
                continue
            if 'conc' in op:
                if not self.concurrent(app, cfg, op, step, res):
                    break
                snap = snapshot(3000 + step)
                if baseline is None:
                    baseline = snap
                if snap != baseline:
                    res.violate(K + 'no-recovery@concurrent', 'step %d: after a concurrent batch the healthy probes answer %s, before %s'
                                % (step, snap, baseline), step)
                    break
                continue
            exp = expected(cfg, op)
            ex = self.one(app, cfg, op, step, res, 'req')
            trace = RT.trace.get(step, [])
            fired = [n for n, f in op['faults'].items() if f['beh'] != 'pass' and ('>' + n) in trace]
            for n in fired:
                f = op['faults'][n]
                res.fire('%s:%s' % (f['beh'], (f.get('exc') or f.get('value') or '').split(':')[0] or 'exc'))
                if f.get('breaking') is False:
                    res.probe('nonbreaking-http')
            got = ('escape', None) if ex.escaped is not None else ('status', ex.code)
            res.ev(step, op['method'], op['path'], canon(op['faults'])[:200], '->', got[0], ex.code,
                   type(ex.escaped).__name__ if ex.escaped else None)
            if fired:
                res.nontrivial = True
            for n in fired:
                f = op['faults'][n]
                res.sigs.add('%s|%s|%s|%s|%s' % (cfg['handler'], n.rsplit('.', 1)[-1] if '.' in n else n, f['beh'],
                                                 f.get('exc') or f.get('value'), exp))
            ctx = 'step %d %s %s handler=%s faults=%s' % (step, op['method'], op['path'], cfg['handler'], canon(op['faults'])[:300])
            where = self.where(op, fired)
            if exp[0] == 'status-in':
                res.probe('typed-binding-odd-segment')
                if ex.escaped is not None:
                    res.violate(K + 'exception-escaped:%s@url-converter' % type(ex.escaped).__name__,
                                ctx + ' -> %r escaped to the WSGI server (phase %s)' % (ex.escaped, ex.escaped_phase), step)
                    break
                if ex.code not in exp[1] or ex.errors or not ex.iter_done:
                    res.violate(K + 'wrong-status:%s@url-converter' % ex.code, ctx + ' -> %s %r' % (ex.status, ex.errors[:1]), step)
                    break
                continue
            if exp[0] == 'status':
                if ex.escaped is not None:
                    res.violate(K + 'exception-escaped:%s@%s' % (type(ex.escaped).__name__, where),
                                ctx + ' -> %r escaped to the WSGI server (phase %s); expected status %d'
                                % (ex.escaped, ex.escaped_phase, exp[1]), step)
                    break
                if ex.code != exp[1]:
                    res.violate(K + 'wrong-status:%s-not-%s@%s' % (ex.code, exp[1], where),
                                ctx + ' -> status %s, expected %d' % (ex.status, exp[1]), step)
                    break
                if ex.errors:
                    res.violate(K + 'incomplete-response:%s@%s' % (ex.errors[0][0], where), ctx + ' -> %s %s' % ex.errors[0], step)
                    break
                if not ex.iter_done:
                    res.violate(K + 'incomplete-response:body', ctx, step)
                    break
                if cfg['handler'] in ('re_raises', 're_raises_http') and ex.code >= 400 and fired:
                    res.probe('render-error-fallback')
                if cfg['handler'] == 're_other' and ex.code == 502:
                    res.probe('handler-replaced-error')
            else:
                if ex.escaped is None:
                    res.violate(K + 'not-reraised@%s' % where, ctx + ' -> status %s although the handler re-raises' % ex.status, step)
                    break
                if exp[1] == 'injected':
                    injected = RT.raised.get(step, [])
                    if not any(ex.escaped is e for e in injected):
                        res.violate(K + 'reraised-not-original@%s' % where, ctx + ' -> %r is not the injected exception object' % (ex.escaped,), step)
                        break
                    res.probe('escaped-original-exception')
                elif not isinstance(ex.escaped, TypeError):
                    res.violate(K + 'reraised-wrong-type@%s' % where, ctx + ' -> %r, expected the framework TypeError' % (ex.escaped,), step)
                    break
            if op['faults'] or (exp[0] == 'status' and exp[1] >= 400):
                # a failed request (also a plain 404/405) must leave the application unchanged
                snap = snapshot(1000 + step)
                if snap != baseline:
                    res.violate(K + 'no-recovery@%s' % where, ctx + '\n after this request the healthy probes answer %s, before %s'
                                % (snap, baseline), step)
                    break
                res.probe('recovered')
        res.steps = len(plan['ops'])
        return res

    def concurrent(self, app, cfg, op, step, res):
        """Every request of the batch must get what the outcome model says for IT -- whatever the others do meanwhile."""
        K = 'C08/'
        RT.reset({})
        got = {}
        tasks = {}
        for i, rq in enumerate(op['conc']):
            seq = 5000 + step * 10 + i
            faults = {}
            for name, f in rq['faults'].items():
                f = dict(f)
                if 'msg' in f:
                    f['msg'] = HUGE_NONASCII if f['msg'] == 'huge-nonascii' else MSGS[f['msg']]
                faults[name] = f
            RT.seq_faults[seq] = faults
            if rq.get('imports'):
                RT.seq_imports.add(seq)
                res.probe('first-time-import-during-a-request')
            hdr = {'Accept': rq['accept']} if rq.get('accept') else {}
            env = make_environ(rq['method'], rq['path'], headers=hdr, body=b'b' if rq['method'] == 'POST' else b'',
                               errors_stream=cfg.get('errors_stream'))

            def task(i=i, seq=seq, env=env):
                RT.set_seq(seq)
                got[i] = call_app(app, env)
            tasks['T%d' % i] = task
        names = sorted(tasks)
        order = [n for n in op.get('order', names) if n in names] + [n for n in names if n not in op.get('order', names)]
        sched = BatonScheduler(order, op.get('preempts', []), op.get('granularity', 'line'), WATCH, record_trace=bool(op.get('trace')))
        sched.run(tasks)
        if op.get('trace'):
            res.extra.setdefault('traces', []).append({'trace': sched.trace, 'finish': dict(sched.finish_step)})
        res.fire('preempt', len(sched.switches))
        res.probe('concurrent-faulted-requests')
        res.nontrivial = True
        res.ev(step, 'conc', len(op['conc']), 'switches', len(sched.switches), [got[i].code if i in got else None for i in range(len(op['conc']))])
        if sched.errors:
            res.violate(K + 'thread-raised:%s' % type(list(sched.errors.values())[0]).__name__, '%r' % (sched.errors,), step)
            return False
        for i, rq in enumerate(op['conc']):
            exp = expected(cfg, rq)
            ex = got[i]
            ctx = 'step %d %s %s handler=%s faults=%s, served concurrently with %s' % (
                step, rq['method'], rq['path'], cfg['handler'], canon(rq['faults'])[:200],
                [(o['method'], o['path'], canon(o['faults'])[:80]) for j, o in enumerate(op['conc']) if j != i])
            if exp[0] == 'status':
                if ex.escaped is not None:
                    res.violate(K + 'concurrent/exception-escaped:%s' % type(ex.escaped).__name__, ctx + ' -> %r escaped; expected status %d' % (ex.escaped, exp[1]), step)
                    return False
                if ex.code != exp[1]:
                    res.violate(K + 'concurrent/wrong-status:%s-not-%s' % (ex.code, exp[1]), ctx + ' -> status %s, expected %d' % (ex.status, exp[1]), step)
                    return False
                if ex.errors or not ex.iter_done:
                    res.violate(K + 'concurrent/incomplete-response', ctx + ' -> %r' % (ex.errors[:1],), step)
                    return False
            elif ex.escaped is None:
                res.violate(K + 'concurrent/not-reraised', ctx + ' -> status %s although the handler re-raises' % ex.status, step)
                return False
        return True

    @staticmethod
    def other_app(kind, res):
        """Another Application lives (and is configured) in the same process."""
        import sys
        res.fire('other_app:' + kind)
        res.probe('other-application-in-process')

        def hello():
            from clastic import Response
            return Response('other')
        argv = sys.argv
        sys.argv = ['app.py']
        try:
            if kind == 'serve-debugger':
                Application([('/', hello)]).serve(use_debugger=True, use_reloader=False, use_meta=False, use_static=False,
                                                  _jk_just_testing=True)
            elif kind == 'serve-plain':
                Application([('/', hello)]).serve(use_debugger=False, use_reloader=False, _jk_just_testing=True)
            elif kind == 'construct-debug':
                Application([('/', hello)], debug=True)
            else:
                Application([('/', hello)], error_handler=ErrorHandler(reraise_uncaught=True))
        finally:
            sys.argv = argv

    @staticmethod
    def where(op, fired):
        if not fired:
            return 'nofault'
        n = sorted(fired)[0]
        f = op['faults'][n]
        pos = n.rsplit('.', 1)[-1] if '.' in n else n
        what = f.get('exc') or f.get('value') or ''
        what = 'http' if what.startswith('http:') else ('exc' if f['beh'].startswith('raise') else what)
        return '%s:%s:%s' % (pos, f['beh'], what)

    def simplify(self, plan):
        for i, op in enumerate(plan['ops']):
            for n, f in op.get('faults', {}).items():
                if f.get('msg') not in (None, 'plain'):
                    c = dict(plan)
                    c['ops'] = [dict(o) for o in plan['ops']]
                    c['ops'][i]['faults'] = dict(op['faults'])
                    c['ops'][i]['faults'][n] = dict(f, msg='plain')
                    yield c
        if plan['config']['handler'] != 'default':
            c = dict(plan)
            c['config'] = dict(plan['config'], handler='default')
            yield c


CHECK = C08()
