"""C03 -- middlewares nest in the documented M-shaped order (chain world).

plan = {config: {types:{T:{unique,reorderable,phases:[..]}}, outer:[T..], sub:[T..]|None, route:[T..],
                 ep_returns:'dict'|'resp', has_render:bool},
        ops: [{faults: {function name: {beh: ...}}}]}
Oracle: a reference onion interpreter written from the property text; the
whole enter/leave/raise trace, including the identity (creation label) of what
every next() returned or raised, must be equal.
"""
from clastic import Application, Route

from sim.core.base import Check, RunResult, Streams, InvalidPlan, canon
from sim.core.gateway import make_environ, call_app
from sim.worlds.chain import RT, make_function, make_mw_type, EXC_TYPES, OnionModel, DEFAULT

LAYER_BEHS = ['raise_before', 'raise_after', 'return_early', 'swallow']
PHASES = ('request', 'endpoint', 'render')


# ---------------------------------------------------------------------------
# reference model

def instances(cfg):
    def lvl(tag, lst):
        # a 'shared' type is ONE instance listed wherever the type appears; a type with static hooks hands out the
        # same function objects from every instance: either way the same hook sits at several positions
        return [{'name': ('sh:%s' % t) if shared_name(cfg, t) else '%s%d:%s' % (tag, i, t), 'type': t}
                for i, t in enumerate(lst or [])]
    return lvl('o', cfg['outer']), (lvl('s', cfg['sub']) if cfg.get('sub') is not None else None), lvl('r', cfg['route'])


def mid_instances(cfg):
    # an application level between the outermost and the innermost one (three nested applications)
    return [{'name': ('sh:%s' % t) if shared_name(cfg, t) else 'm%d:%s' % (i, t), 'type': t} for i, t in enumerate(cfg.get('mid') or [])]


def shared_name(cfg, t):
    spec = cfg['types'][t]
    return bool(spec.get('shared')) or spec.get('hooks') == 'static'


def type_funcs(cfg, t):
    """phase -> signature spec of the type's hook.  With a 'wiring' one type provides a name from its request hook and
    other types (which provide nothing) declare that name with a default in some of their hooks."""
    spec = cfg['types'][t]
    w = cfg.get('wiring') or {}
    out = {}
    for ph in spec['phases']:
        f = {}
        if w.get('provider') == t and ph == 'request':
            f['provides'] = [w['name']]
        if ph in (w.get('consumers') or {}).get(t, []):
            f['opt'] = [w['name']]
        out[ph] = f
    return out


def wiring_expectation(cfg, target):
    """{layer function name: [expected value kind per call, in call order]} for the wired name: 'default' where no
    source offers it at that layer (the provider is further in, or absent), else the provider's layer name."""
    w = cfg.get('wiring')
    if not w:
        return {}
    order = merged_order(cfg if target in ('x', 'z') else dict(cfg, route=[]))
    pidx = [i for i, m in enumerate(order) if m['type'] == w['provider']]
    out = {}
    for i, m in enumerate(order):
        for ph in w['consumers'].get(m['type'], []):
            if ph not in cfg['types'][m['type']]['phases']:
                continue
            if not pidx:
                exp = 'default'
            elif ph == 'request':
                exp = order[pidx[0]]['name'] if pidx[0] < i else 'default'
            else:
                exp = order[pidx[0]]['name']
            out.setdefault(m['name'] + '.' + ph, []).append(exp)
    if w.get('ep'):
        out['EP'] = [order[pidx[0]]['name'] if pidx else 'default']
    return out


def merge(cfg, old, new):
    """Documented merge: the new (outer) list first; a unique type is kept
    once, at its outermost position."""
    merged = list(new)
    for mw in old:
        t = cfg['types'][mw['type']]
        if t['unique'] and any(m['type'] == mw['type'] for m in merged):
            if t['reorderable']:
                continue
            raise ValueError('multiple inclusion of unique non-reorderable type')
        merged.append(mw)
    return merged


def merged_order(cfg):
    outer, sub, route = instances(cfg)
    m = route
    if sub is not None:
        m = merge(cfg, m, sub)
        if cfg.get('mid') is not None:
            m = merge(cfg, m, mid_instances(cfg))
    return merge(cfg, m, outer)


def chain_functions(cfg, target='x'):
    """All function names of the route's chain, outermost first per phase.
    target 'y' is a second route, bound after the first, WITHOUT route-level middlewares."""
    order = merged_order(cfg if target in ('x', 'z') else dict(cfg, route=[]))
    out = {}
    for ph in PHASES:
        out[ph] = [m['name'] + '.' + ph for m in order if ph in cfg['types'][m['type']]['phases']]
    return out


def model_run(cfg, faults, target='x'):
    if target == 'z':
        # the route whose endpoint is a RerouteWSGI object ("use as a route endpoint"): calling it raises it, through every
        # layer like any exception; unless a layer keeps it, the other WSGI application answers
        f2 = dict(faults)
        f2['EP'] = {'beh': 'raise', 'exc': 'RerouteWSGI'}
        trace, final = OnionModel(chain_functions(cfg, 'x'), f2, 'dict', False).run()
        trace = [t.replace('exc:RerouteWSGI#', '?RerouteWSGI#') for t in trace if t != '>EP' and not t.startswith('!EP ')]
        if final[0] == 'raised' and final[1] == 'RerouteWSGI':
            return trace, (200, 'legacy')
    else:
        trace, final = OnionModel(chain_functions(cfg, target), faults, cfg['ep_returns'], cfg['has_render']).run()
    return trace, _model_out(final)


def _model_out(final):
    if final[0] == 'value' and final[1][0] == 'resp':
        return (final[1][3], final[1][2])
    if final[0] == 'raised' and final[1].startswith('http:'):
        # an HTTPException raised anywhere in the chain passes every layer as an exception (judged by the trace) and
        # is the response in the end
        from clastic import errors as cerrors
        return (getattr(cerrors, final[1][5:]).code, None)
    return (500, None)


# ---------------------------------------------------------------------------

def fn_has_layers(cfg):
    fn = chain_functions(cfg)
    return bool(fn['request'] or fn['endpoint'])


def _legacy_wsgi(environ, start_response):
    start_response('200 OK', [('Content-Type', 'text/plain'), ('X-Sim-From', 'legacy')])
    return [b'legacy']


def build_app(cfg):
    classes = {}
    for t, spec in sorted(cfg['types'].items()):      # a base type has a smaller index than its subclasses
        classes[t] = make_mw_type('C03' + t, spec['unique'], spec['reorderable'], type_funcs(cfg, t),
                                  base=classes[spec['base']] if spec.get('base') else None, hooks=spec.get('hooks', 'method'),
                                  static_name=('sh:' + t) if spec.get('hooks') == 'static' else None,
                                  cls_name=('C03' + spec['named_like']) if spec.get('named_like') else None,
                                  field_eq=bool(spec.get('field_eq')), inst_provides=bool(spec.get('inst_provides')))
    outer, sub, route = instances(cfg)
    one = {}

    def objs(lst):
        out = []
        for m in lst:
            if cfg['types'][m['type']].get('shared'):
                if m['type'] not in one:
                    one[m['type']] = classes[m['type']](m['name'])
                out.append(one[m['type']])
            else:
                out.append(classes[m['type']](m['name']))
        return out
    w = cfg.get('wiring') or {}
    ep = make_function('EP', False, params_req=cfg.get('ep_consumes', []), params_opt=([w['name']] if w.get('ep') else []),
                       default_value=cfg['ep_returns'], bound=False)
    rn = make_function('RN', False, params_req=('context',), default_value='resp', bound=False) if cfg['has_render'] else None
    rt = Route('/x', ep, rn, middlewares=objs(route))
    rt2 = Route('/y', ep, rn)        # bound after /x, no middlewares of its own
    extra = []
    if cfg.get('reroute_route'):
        from clastic.application import RerouteWSGI
        extra.append(Route('/z', RerouteWSGI(_legacy_wsgi), middlewares=objs(route)))
    if sub is not None:
        inner = Application([rt, rt2] + extra, middlewares=objs(sub))
        if cfg.get('mid') is not None:
            middle = Application([('/sub', inner)], middlewares=objs(mid_instances(cfg)))
            return Application([('/mid', middle)], middlewares=objs(outer)), '/mid/sub/'
        return Application([('/sub', inner)], middlewares=objs(outer)), '/sub/'
    return Application([rt, rt2] + extra, middlewares=objs(outer)), '/'


class C03(Check):
    id = 'C03'
    world = 'chain'
    level = 'fault_enumeration'
    design_ref = 'DESIGN.md 3.2'
    runs = {'quick': 3000, 'thorough': 40000}
    shrink_lists = (('ops',), ('config', 'outer'), ('config', 'sub'), ('config', 'mid'), ('config', 'route'))
    rule = ('generated middleware stacks at application / embedded-application / route level (unique, non-unique, '
            'non-reorderable types; any subset of request/endpoint/render functions; endpoint returning context or '
            'Response; with/without render). Per stack: the fault-free request plus EVERY single-layer fault placement '
            '(each layer x raise-before/raise-after/return-early/swallow, endpoint/render raising), plus sampled double '
            'faults. Oracle: full enter/leave/raise trace with object identity vs. a reference onion interpreter. '
            'Non-trivial: request with >=1 fault fired; distinct = (stack shape, fault placement kind, outcome).')
    assumptions = ('the same unique type never appears twice inside one list (DESIGN O3)',
                   'a non-reorderable unique type appears at one level only (duplicate is a documented ValueError)')
    components = {'real': ['clastic.middleware.core (merge_middlewares, make_middleware_chain)', 'clastic.sinter generated chains',
                           'BoundRoute / Application / SubApplication binding', 'dispatch + default error handler'],
                  'stub': ['application code (harness middlewares/endpoint/render with cooperative fault points)',
                           'WSGI server/client']}
    level_text = ('For each generated stack the single-fault space (<= 17 layers x 4 behaviours) is enumerated '
                  'completely and compared, event by event, with a reference interpreter; stacks are sampled by seed.')
    level_note = 'Trusted: the reference onion interpreter (written from the property text, ~90 lines).'
    required_probes = ('unique-value-class-middleware-at-two-levels', 'stack-deeper-than-64', 'three-nested-applications-with-middlewares', 'non-unique-non-reorderable-type-twice', 'two-unique-types-with-one-class-name', 'chain-consumes-every-injectable', 'same-hook-at-two-positions:static', 'same-hook-at-two-positions:one-instance', 'declared-name-provided-further-in', 'declared-name-offered',
                       'non-response-value-through-layers', 'unique-type-twice-in-route-list', 'subclass-and-base-in-one-stack', 'closure-hooks', 'second-route-without-own-middlewares', 'render-skipped-for-response', 'no-render-layers-ran', 'unique-deduped', 'warnings-of-a-category-escalated', 'reroute-endpoint-under-middlewares', 'unique-type-instances-provide-different-names', 'three-levels',
                       'swallow-fired', 'double-fault')

    def gen_config(self, rng):
        ntypes = rng.randint(1, 5)
        types = {}
        for i in range(ntypes):
            phases = [ph for ph in PHASES if rng.random() < 0.6] or [rng.choice(PHASES)]
            u = rng.random() < 0.7
            # (a NON-unique type may be non-reorderable, too: that flag only matters for unique types)
            types['T%d' % i] = {'unique': u, 'reorderable': (rng.random() < 0.75), 'phases': phases,
                                 # a SUBCLASS of an earlier type is still a different type (no de-duplication between them)
                                 'base': ('T%d' % rng.randrange(i)) if (i and rng.random() < 0.35) else None,
                                 # hooks as plain functions from one factory (same __name__/__module__ on every instance)
                                 'hooks': 'closure' if rng.random() < 0.3 else 'method'}
            if u and rng.random() < 0.25:
                types['T%d' % i]['field_eq'] = True     # a value class: instances with different fields compare unequal
            if i and rng.random() < 0.25:
                # a different type that merely has the same class NAME as an earlier one (SessionMiddleware of another package)
                types['T%d' % i]['named_like'] = 'T%d' % rng.randrange(i)
            r = rng.random()
            if not u and r < 0.3:
                types['T%d' % i]['shared'] = True       # ONE instance of it, listed at every position the type takes
            elif not u and r < 0.45:
                types['T%d' % i]['hooks'] = 'static'
            if types['T%d' % i]['base']:
                parent = types[types['T%d' % i]['base']]
                types['T%d' % i]['phases'] = [ph for ph in PHASES if ph in phases or ph in parent['phases']]
                types['T%d' % i]['hooks'] = parent['hooks']
            if u and types['T%d' % i]['hooks'] == 'closure' and 'request' in types['T%d' % i]['phases'] and rng.random() < 0.6:
                # every instance sets its own `provides` (ScriptRootMiddleware(provided_name=...)): still ONE type
                types['T%d' % i]['inst_provides'] = True
        keys = sorted(types)

        def pick(maxn, banned=()):
            out = []
            for _ in range(rng.randint(0, maxn)):
                t = rng.choice(keys)
                if t in banned:
                    continue
                if types[t]['unique'] and t in out:
                    continue
                out.append(t)
            return out
        nonreo = set(t for t in keys if types[t]['unique'] and not types[t]['reorderable'])
        outer = pick(3)
        has_sub = rng.random() < 0.5
        sub = pick(2, banned=nonreo & set(outer)) if has_sub else None
        mid = pick(2, banned=nonreo & (set(outer) | set(sub or []))) if (has_sub and rng.random() < 0.4) else None
        route = pick(3, banned=nonreo & (set(outer) | set(sub or []) | set(mid or [])))
        dup_ok = [t for t in route if types[t]['unique'] and types[t]['reorderable']]
        if dup_ok and rng.random() < 0.3:
            # the route lists a unique type twice: it still appears once in the chain
            route.insert(rng.randrange(len(route) + 1), rng.choice(dup_ok))
        wiring = None
        provs = [t for t in keys if types[t]['unique'] and 'request' in types[t]['phases']]
        if provs and rng.random() < 0.45:
            # one type provides a name; types that provide nothing declare it with a default -- wherever they sit:
            # outside the provider nobody offers the name yet, so they get their own default there
            pt = rng.choice(provs)
            cons = {}
            for t in keys:
                if t != pt and rng.random() < 0.6:
                    cons[t] = [ph for ph in types[t]['phases'] if rng.random() < 0.7]
            wiring = {'name': 'u1', 'provider': pt, 'consumers': cons, 'ep': rng.random() < 0.5}
        return {'types': types, 'outer': outer, 'sub': sub, 'mid': mid, 'route': route, 'wiring': wiring,
                # what the endpoint declares: with all four, the chain consumes EVERYTHING the framework has on offer for this route
                'ep_consumes': rng.choice([[], [], ['request'], ['request', '_route', '_application', '_dispatch_state']]),
                'ep_returns': rng.choice(['dict', 'dict', 'resp', 'baseresp', 'falsyresp', 'excobj']), 'has_render': rng.random() < 0.8,
                # a third route whose endpoint is a RerouteWSGI object (a mounted legacy WSGI application), same middlewares
                'reroute_route': rng.random() < 0.4,
                # the process escalates warnings of some category to errors (-W error::UserWarning ...)
                'warnings_error': rng.choice([None, None, 'UserWarning', 'RuntimeWarning'])}

    def generate(self, seed, tier):
        S = Streams(seed)
        cfg = self.gen_config(S['config'])
        fn = chain_functions(cfg)
        layers = fn['request'] + fn['endpoint'] + fn['render']
        ops = [{'faults': {}}]
        frng = S['faults']
        # (every third exception is one of the framework's own HTTP errors: exceptions AND responses)
        excs = sorted(EXC_TYPES) + ['http:Forbidden', 'http:NotFound', 'http:BadRequest', 'http:Forbidden', 'http:ServiceUnavailable', 'http:Conflict', 'http:Gone']
        for name in layers:
            for beh in LAYER_BEHS:
                ops.append({'faults': {name: {'beh': beh, 'exc': frng.choice(excs), 'value': frng.choice(['resp', 'resp', 'baseresp', 'falsyresp'])}}})
        ops.append({'faults': {'EP': {'beh': 'raise', 'exc': frng.choice(excs)}}})
        if cfg['has_render']:
            ops.append({'faults': {'RN': {'beh': 'raise', 'exc': frng.choice(excs)}}})
            # the render side hands back something that is not a Response: it must reach every caller's next() as is
            for v in ('none', 'str', 'number'):
                ops.append({'faults': {'RN': {'beh': 'return', 'value': v}}})
        for v in ('none', 'str'):
            ops.append({'faults': {'EP': {'beh': 'return', 'value': v}}})
        for name in frng.sample(layers, min(3, len(layers))):
            ops.append({'faults': {name: {'beh': frng.choice(['return_early', 'replace_after']), 'value': frng.choice(['none', 'str', 'number', 'list', 'excobj'])}}})
        allf = layers + ['EP'] + (['RN'] if cfg['has_render'] else [])
        for _ in range(4 if tier == 'quick' else 10):
            if len(allf) >= 2:
                a, b = frng.sample(allf, 2)
                ops.append({'faults': {a: {'beh': frng.choice(LAYER_BEHS) if a in layers else 'raise', 'exc': frng.choice(excs)},
                                       b: {'beh': frng.choice(LAYER_BEHS) if b in layers else 'raise', 'exc': frng.choice(excs)}}})
        # the sibling route that has no middlewares of its own must not inherit the first route's
        fy = chain_functions(cfg, 'y')
        ylayers = fy['request'] + fy['endpoint'] + fy['render']
        ops.append({'faults': {}, 'target': 'y'})
        for name in ylayers[:6]:
            ops.append({'faults': {name: {'beh': frng.choice(LAYER_BEHS), 'exc': frng.choice(excs)}}, 'target': 'y'})
        if cfg.get('reroute_route'):
            ops.append({'faults': {}, 'target': 'z'})
            zl = fn['request'] + fn['endpoint']
            for name in frng.sample(zl, min(4, len(zl))):
                ops.append({'faults': {name: {'beh': frng.choice(LAYER_BEHS), 'exc': frng.choice(excs), 'value': 'resp'}}, 'target': 'z'})
        return {'world': 'chain', 'seed': seed, 'config': cfg, 'ops': ops}

    def extra_plans(self, tier, base_seed):
        """Deep stacks: 60-90 middlewares around one endpoint, a providing middleware at every position near the 64th,
        the endpoint (and a consumer further in) declaring the provided name."""
        depths = [66, 80] if tier == 'quick' else [64, 65, 66, 70, 80, 90]
        for n in depths:
            for ppos in ([62, 63, 64] if tier == 'quick' else range(58, n, 1)):
                types = {'T0': {'unique': False, 'reorderable': True, 'phases': ['request'], 'base': None, 'hooks': 'method'},
                         'T1': {'unique': True, 'reorderable': True, 'phases': ['request'], 'base': None, 'hooks': 'method'},
                         'T2': {'unique': True, 'reorderable': True, 'phases': ['request', 'endpoint'], 'base': None, 'hooks': 'method'}}
                outer = ['T0'] * n
                outer[ppos] = 'T1'
                cfg = {'types': types, 'outer': outer, 'sub': None, 'mid': None, 'route': ['T2'],
                       'wiring': {'name': 'u1', 'provider': 'T1', 'consumers': {'T2': ['request', 'endpoint']}, 'ep': True},
                       'ep_consumes': [], 'ep_returns': 'resp', 'has_render': False}
                yield {'world': 'chain', 'seed': base_seed, 'config': cfg, 'mode': 'deep-stack',
                       'ops': [{'faults': {}}, {'faults': {'o%d:T0.request' % (n - 1): {'beh': 'raise_after', 'exc': 'KeyError'}}}]}

    def execute(self, plan):
        from sim.core.seams import WarningsEscalated
        w = (plan.get('config') or {}).get('warnings_error')
        with WarningsEscalated([w]):
            res = self._execute_inner(plan)
        if w:
            res.probe('warnings-of-a-category-escalated')
        return res

    def _execute_inner(self, plan):
        res = RunResult()
        cfg = plan['config']
        K = 'C03/'
        if plan.get('mode') == 'deep-stack':
            res.probe('stack-deeper-than-64')
        try:
            order = merged_order(cfg)
        except ValueError:
            raise InvalidPlan('stack with duplicate non-reorderable unique type')
        try:
            app, path = build_app(cfg)
        except Exception as e:
            res.violate(K + 'setup-failed:%s' % type(e).__name__, 'valid-by-construction stack rejected: %r\n%s' % (e, canon(cfg)))
            return res
        if len(set(cfg['route'])) < len(cfg['route']):
            res.probe('unique-type-twice-in-route-list')
        n_inst = len(cfg['outer']) + len(cfg.get('sub') or []) + len(cfg.get('mid') or []) + len(cfg['route'])
        if len(order) < n_inst:
            res.probe('unique-deduped')
            lv = [(t, l) for l in ('outer', 'sub', 'mid', 'route') for t in (cfg.get(l) or []) if cfg['types'][t].get('inst_provides')]
            if any(sum(1 for t2, _ in lv if t2 == t) > 1 for t, _ in lv):
                res.probe('unique-type-instances-provide-different-names')
        if cfg.get('sub') is not None:
            res.probe('three-levels')
        if cfg.get('mid') and cfg.get('sub'):
            res.probe('three-nested-applications-with-middlewares')
        used = set(cfg['outer']) | set(cfg.get('sub') or []) | set(cfg.get('mid') or []) | set(cfg['route'])
        if any(cfg['types'][t].get('base') in used for t in used):
            res.probe('subclass-and-base-in-one-stack')
        if any(cfg['types'][t].get('hooks') == 'closure' for t in used):
            res.probe('closure-hooks')
        if any(cfg['types'][t].get('named_like') in used and cfg['types'][t]['unique'] for t in used):
            res.probe('two-unique-types-with-one-class-name')
        if any(not cfg['types'][t]['unique'] and not cfg['types'][t]['reorderable'] and
               (cfg['outer'] + (cfg.get('sub') or []) + (cfg.get('mid') or []) + cfg['route']).count(t) > 1 for t in used):
            res.probe('non-unique-non-reorderable-type-twice')
        if any(cfg['types'][t].get('field_eq') and (cfg['outer'] + (cfg.get('sub') or []) + (cfg.get('mid') or []) + cfg['route']).count(t) > 1 for t in used):
            res.probe('unique-value-class-middleware-at-two-levels')
        if len(cfg.get('ep_consumes', [])) == 4:
            res.probe('chain-consumes-every-injectable')
        names = [m['name'] for m in order]
        for m in order:
            if names.count(m['name']) > 1:
                res.probe('same-hook-at-two-positions:' + ('static' if cfg['types'][m['type']].get('hooks') == 'static' else 'one-instance'))
        shape = '%d/%s/%d|%s|%s' % (len(cfg['outer']), len(cfg['sub']) if cfg.get('sub') is not None else '-',
                                    len(cfg['route']), cfg['ep_returns'], cfg['has_render'])
        for step, op in enumerate(plan['ops']):
            faults = op['faults']
            target = op.get('target', 'x')
            exp_trace, exp_out = model_run(cfg, faults, target)
            RT.reset(faults)
            RT.set_seq(step)
            ex = call_app(app, make_environ('GET', path + target))
            if target == 'y':
                res.probe('second-route-without-own-middlewares')
            if target == 'z' and (fn_has_layers(cfg)):
                res.probe('reroute-endpoint-under-middlewares')
            got_trace = RT.trace.get(step, [])
            got_out = (ex.code, ex.header('X-Sim-From') if ex.code in (200, 202) else None)
            fired = [f for f in faults if any(t.startswith(('!' + f + ' ', '<' + f + ' ')) for t in got_trace)
                     and faults[f]['beh'] != 'pass']
            if any(faults[f].get('value') in ('none', 'str', 'number', 'list') for f in fired):
                res.probe('non-response-value-through-layers')
            for f in fired:
                res.fire(faults[f]['beh'])
            if fired:
                res.nontrivial = True
            if len(fired) > 1:
                res.probe('double-fault')
            if any(faults[f]['beh'] == 'swallow' for f in fired):
                res.probe('swallow-fired')
            kinds = sorted('%s@%s' % (faults[f]['beh'], f.rsplit('.', 1)[-1]) for f in faults)
            res.sigs.add('%s|%s|%s' % (shape, kinds, got_out[0]))
            res.ev(step, canon(faults), '->', got_out[0], got_out[1], len(got_trace))
            if '>EP' in got_trace and '>RN' not in got_trace and cfg['has_render'] and ex.code == 200:
                res.probe('render-skipped-for-response')
            if not cfg['has_render'] and any(t.startswith('>') and t.endswith('.render') for t in got_trace):
                res.probe('no-render-layers-ran')
            if ex.escaped is not None:
                res.violate(K + 'exception-escaped:%s' % type(ex.escaped).__name__, 'step %d faults %s: %r' % (step, faults, ex.escaped), step)
                break
            wexp = wiring_expectation(cfg, target) if cfg.get('wiring') else {}
            if wexp and got_trace == exp_trace:
                seen = {}
                for fname, kwargs in RT.calls.get(step, []):
                    if 'u1' in kwargs:
                        seen.setdefault(fname, []).append(kwargs['u1'])
                for fname, vals in sorted(seen.items()):
                    for k, v in enumerate(vals):
                        e = wexp.get(fname, [])[k] if k < len(wexp.get(fname, [])) else None
                        ok = (v is DEFAULT) if e == 'default' else (v == ('prov', step, e + '.request', 'u1'))
                        res.probe('declared-name-provided-further-in' if e == 'default' and any(x != 'default' for l in wexp.values() for x in l)
                                  else 'declared-name-offered')
                        if e is None or not ok:
                            res.violate(K + 'layer-argument:%s' % ('default-expected' if e == 'default' else 'provided-expected'),
                                        'step %d: %s call %d got %r for the provided name, expected %s\nconfig %s'
                                        % (step, fname, k, v, e, canon(cfg)), step)
                            break
                if res.violations:
                    break
            if got_trace != exp_trace:
                i = 0
                while i < min(len(got_trace), len(exp_trace)) and got_trace[i] == exp_trace[i]:
                    i += 1
                res.violate(K + 'trace-differs:%s' % self.classify(got_trace, exp_trace, i),
                            'step %d faults %s\n first difference at event %d:\n  got      %s\n  expected %s\n full got      %s\n full expected %s\n config %s'
                            % (step, canon(faults), i, got_trace[i:i + 3], exp_trace[i:i + 3], got_trace, exp_trace, canon(cfg)), step)
                break
            if got_out != exp_out:
                res.violate(K + 'outcome-differs', 'step %d faults %s: got %r expected %r' % (step, canon(faults), got_out, exp_out), step)
                break
        res.steps = len(plan['ops'])
        return res

    @staticmethod
    def classify(got, exp, i):
        g = got[i] if i < len(got) else 'END'
        e = exp[i] if i < len(exp) else 'END'

        def kind(t):
            if t == 'END':
                return 'end'
            name = t.split(' ')[0]
            return t[0] + (name.rsplit('.', 1)[-1] if '.' in name else name[1:])
        if g != 'END' and e != 'END' and g.split(' ')[0] == e.split(' ')[0]:
            return 'identity@' + kind(g)
        return '%s-instead-of-%s' % (kind(g), kind(e))


CHECK = C03()
