"""C20 -- the Flaw failsafe page works for any start-up error text (supervisor world).

The REAL supervisor (server.run_simple(..., use_reloader=True) -> restart_with_reloader)
and the REAL flaw.create_app run against scripted child processes:

plan = {ops: [ {'child': {rc, stderr:{...}, noise, mon_files, ...}, 'failsafe': {'requests': [[method, path]..], 'end': ...}}
             | {'direct': {'text': {...}, 'files': ...}} ]}
"""
import contextlib
import os
import html
import io
import re
import sys
import traceback

import clastic.server as srv
from clastic import flaw

from sim.core.base import Check, RunResult, Streams, InvalidPlan, HarnessError, canon
from sim.core.gateway import make_environ, call_app
from sim.core.seams import Seams

MARKUP = '<b id=simx>&"\'</b>'
MSGS = {'plain': 'division by zero', 'markup': 'bad ' + MARKUP + ' value', 'template': '{tb_str} {#mon_files}{.}{/mon_files} {~lb}',
        'nonascii': 'défaut ☃ 中文', 'colon': 'a: b: c', 'multiline': 'line one\nline two\n  indented', 'empty': '',
        'percent': '100%s %(x)d', 'long': 'm' * 3000, 'trailing-tab': 'bad separator \t', 'trailing-spaces': 'ends in blanks   ', 'leading-space': ' starts with a blank', 'very-long': 'first words ' + 'v' * 9000 + ' last words', 'exactly-4096': 'x' * 4096, 'around-4k': 'begin ' + 'y' * 4085, 'ignored': 'job 7 ignored', 'exception-word': 'Exception ignored',
        # template syntax that is NOT balanced (round 14: the balanced one above still parses when spliced into a template source)
        'template-open-block': "'{#items}'", 'template-stray-close': 'no {/items} and {:else} here {?x}'}
EXCS = ['Exception', 'Exception', 'ZeroDivisionError', 'ValueError', 'KeyError', 'ImportError', 'ModuleNotFoundError', 'AttributeError', 'NameError',
        'TypeError', 'RuntimeError', 'OSError', 'UnicodeDecodeError', 'RecursionError', 'CustomError', 'LocalError', 'DashModuleError']
FILES = ['/app/main.py', '/app/pkg/<b id=simx>.py', '/app/ünï.py', '/app/a&b.py', '/app/{tmpl}.py', '/app/' + 'd' * 300 + '.py',
         '/app/with space.py', "/app/quote'\".py", '{stdlib}/os.py', '{stdlib}/json/decoder.py', '{werkzeug}/wrappers/base_response.py',
         '{clastic}/application.py', '{clastic}/_clastic_assets/common.css',
         # names under the library directories that need escaping
         '{stdlib}/site-packages/<b id=simx>&.py', '{werkzeug}/plug&in<b id=simx>.py', "{clastic}/it's \"quoted\".py", '{stdlib}/ünï/mod.py',
         # the project's own files in directories whose NAME merely begins like a library directory's
         '{stdlib}-extras/app.py', '{stdlib}2/tool.py', '{werkzeug}_contrib/ext.py', '{clastic}_site/wsgi.py', '{stdlib}.bak/os.py',
         # several spellings of one file
         '/app/pkg/run.py', '/app/pkg/./run.py', '/app/pkg//run.py', '/app/pkg/sub/../run.py', 'run.py', '{cwd}/run.py']


# "any request path and method": also the methods of HTTP extensions (WebDAV, caches) and unknown ones
REQ_METHODS = ['GET', 'GET', 'GET', 'POST', 'HEAD', 'PUT', 'DELETE', 'OPTIONS', 'PATCH', 'PROPFIND', 'MKCOL', 'REPORT', 'PURGE', 'M-SEARCH', 'FOO']


def resolve_file(f):
    import ast
    import os
    import werkzeug
    import clastic
    return (f.replace('{cwd}', os.getcwd()).replace('{stdlib}', os.path.dirname(ast.__file__)).replace('{werkzeug}', os.path.dirname(werkzeug.__file__))
            .replace('{clastic}', os.path.dirname(clastic.__file__)))


PATHS = ['//', '///', '//x', '/x//', '/%0A', '/x%0A', '/%0D%0A', '/', '/x/y', '/clastic_assets/nope', '/a//b/', '/%3Cb%3E', '/clastic_assets/..', '/clastic_assets/../flaw.py',
         '/clastic_assets/x/../../y', '/clastic_assets//etc/hosts', '/clastic_assets/..hidden', '/clastic_assets/', '/clastic_assets',
         '/clastic_assets/common.css/', '/clastic_assets/%2e%2e/%2e%2e/setup.py']


class CustomError(Exception):
    pass


def _local_error_type():
    # a class defined inside a function is printed as "module.function.<locals>.Name: message"
    class LocalError(Exception):
        pass
    return LocalError


LocalError = _local_error_type()
# (a script directory or distribution name with a dash is a module name for CPython's traceback printer all the same)
DashModuleError = type('DashModuleError', (Exception,), {'__module__': 'my-app.errors'})


def raise_at_depth_b(exc_name, msg, depth, chained):
    # alternate two functions: CPython collapses runs of identical frames
    # ("[Previous line repeated N more times]"), which would keep deep tracebacks short
    return raise_at_depth(exc_name, msg, depth - 1, chained)


def raise_at_depth(exc_name, msg, depth, chained):
    if depth > 0:
        return raise_at_depth_b(exc_name, msg, depth, chained)
    if exc_name == 'UnicodeDecodeError':
        exc = UnicodeDecodeError('utf8', b'\xff', 0, 1, msg)
    elif exc_name in ('CustomError', 'LocalError', 'DashModuleError'):
        exc = globals()[exc_name](msg)
    else:
        exc = getattr(__builtins__, exc_name, None) if not isinstance(__builtins__, dict) else __builtins__.get(exc_name)
        exc = exc(msg)
    if chained:
        try:
            raise LookupError('first failure ' + MARKUP)
        except LookupError as first:
            raise exc from first
    raise exc


def make_traceback(spec):
    """Really raise and format, so the text is what CPython writes to stderr."""
    kind = spec.get('kind', 'traceback')
    if kind == 'syntaxerror':
        try:
            compile(spec.get('source', 'def broken(:\n    pass\n'), '/app/%s.py' % spec.get('fname', 'mod'), 'exec')
        except SyntaxError:
            return traceback.format_exc()
    if kind == 'lines':
        return ''.join(l + '\n' for l in spec['lines'])
    old = sys.getrecursionlimit()
    base = len(traceback.extract_stack())
    # two frames per level (alternating functions); independent of how deep the caller's stack is
    sys.setrecursionlimit(max(old, base + 2 * spec.get('depth', 1) + 300))
    try:
        raise_at_depth(spec['exc'], MSGS[spec['msg']], spec.get('depth', 1), spec.get('chained', False))
    except Exception:
        return traceback.format_exc()
    finally:
        sys.setrecursionlimit(old)


class FakeStderr(object):
    def __init__(self, lines):
        self.lines = list(lines)

    def readline(self):
        return self.lines.pop(0) if self.lines else b''


class FakeChild(object):
    def __init__(self, lines, rc):
        self.stderr = FakeStderr(lines)
        self.rc = rc
        self.returncode = None

    def poll(self):
        if self.stderr.lines:
            return None
        self.returncode = self.rc
        return self.rc


class World(object):
    """Scripted children, fake server / thread / signal / reloader loop."""

    def __init__(self, episodes, res, check):
        self.episodes = list(episodes)
        self.res = res
        self.check = check
        self.events = []
        self.servers = []
        self.current = None
        self.expected_text = None
        self.spawned = 0
        self.scraped = []
        self.PIPE = -1

    # subprocess seam
    def Popen(self, args, env=None, stderr=None):
        if not self.episodes:
            raise InvalidPlan('supervisor spawned more children than scripted')
        live = [s for s in self.servers if not s.closed]
        if live:
            self.res.violate('C20/supervisor/failsafe-not-shut-down-before-restart',
                             'child #%d spawned while a failsafe server is still up' % (self.spawned + 1))
        ep = self.episodes.pop(0)
        self.current = ep
        self.spawned += 1
        self.events.append('spawn')
        child = ep['child']
        lines = []
        text = make_traceback(child['stderr']) if child.get('stderr') else ''
        tb_lines = text.splitlines(True)
        if child.get('truncate') is not None:
            tb_lines = tb_lines[:max(0, len(tb_lines) - child['truncate'])]
        noise = list(child.get('noise') or [])
        stream = []
        for i, l in enumerate(tb_lines):
            stream.append(l)
            if noise and child.get('interleave') and i % child['interleave'] == 0:
                stream.append(noise.pop(0) + '\n')
        stream = [n + '\n' for n in noise[:2]] + stream + [n + '\n' for n in noise[2:]]
        mon_files = [resolve_file(f) for f in child['mon_files']] if child.get('mon_files') is not None else None
        if mon_files is not None and child.get('mention'):
            # the files the error text itself names are monitored files (that is why the child was watching them)
            named = re.findall(r'File "([^"\n]+)"', text)
            for fn in named[:4]:
                if fn not in mon_files:
                    mon_files.append(fn)
            self.res.probe('error-text-names-monitored-file')
        if mon_files is not None:
            pos = min(len(stream), child.get('mon_pos', len(stream)))
            stream.insert(pos, '%s%r\n' % (srv._MON_PREFIX, mon_files))
        # what the supervisor scrapes: everything but monitor lines, last _STDERR_BUFF_SIZE lines
        kept = [l for l in stream if not l.startswith(srv._MON_PREFIX)]
        self.expected_text = ''.join(kept[-srv._STDERR_BUFF_SIZE:])
        self.scraped.append(bool(kept))
        self.expected_files = mon_files
        self.tb_spec = child.get('stderr')
        self.truncated = bool(child.get('truncate')) or len(kept) > srv._STDERR_BUFF_SIZE
        if len(kept) > srv._STDERR_BUFF_SIZE:
            self.res.probe('ring-buffer-overflow')
        return FakeChild([l.encode('utf8') for l in stream], child['rc'])

    # make_server seam
    def make_server(self, host, port, app=None, **kw):
        world = self

        class FakeServer(object):
            def __init__(self):
                self.app = app
                self.closed = False
                self.shut = False

            def serve_forever(self):
                world.events.append('serve_forever')

            def shutdown(self):
                self.shut = True
                world.events.append('shutdown')

            def server_close(self):
                self.closed = True
                world.events.append('server_close')
        s = FakeServer()
        self.servers.append(s)
        self.events.append('make_server')
        return s

    def start_new_thread(self, fn, args):
        self.events.append('thread')
        fn(*args)

    # reloader_loop seam: the instant at which the failsafe is live
    def reloader_loop(self, files, interval=1):
        self.events.append('reloader_loop')
        ep = self.current
        fs = ep.get('failsafe') or {}
        app = self.servers[-1].app
        for method, path in fs.get('requests', [['GET', '/']]):
            self.check.judge_page(self.res, app, method, path, self.expected_text, self.expected_files, self.tb_spec,
                                  self.truncated, 'supervised')
            if self.res.violations:
                break
        end = fs.get('end', 'interrupt')
        if end == 'changed':
            self.res.fire('restart_after_file_change')
            raise SystemExit(3)
        if end == 'exit5':
            raise SystemExit(5)
        raise KeyboardInterrupt()


class SysProxy(object):
    def __init__(self):
        self.stderr = io.StringIO()
        self.argv = ['app.py']

    def __getattr__(self, k):
        return getattr(sys, k)


class FakeSignal(object):
    SIGTERM = 15
    SIGTTOU = 22
    SIG_IGN = 1

    def signal(self, *a):
        return None

    def getsignal(self, *a):
        return None


CONC_WATCH = (os.path.join(os.path.abspath(os.environ.get('VERIF_REPO', '/repo')), 'clastic') + os.sep, '<sinter')


class PackageUnreadable(object):
    """While the failsafe page is up the developer is repairing things: the clastic installation itself is being upgraded
    or moved -- every file below the package directory is unreadable for a while (stat/open fail, isfile says no).  The
    application was built before."""

    def __init__(self, active):
        self.active = active
        self.hits = 0
        self.saved = []

    def _is_pkg(self, p):
        try:
            p = os.fspath(p)
            if isinstance(p, bytes):
                p = os.fsdecode(p)
            return os.path.abspath(p).startswith(os.path.dirname(os.path.abspath(flaw.__file__)) + os.sep)
        except Exception:
            return False

    def __enter__(self):
        if not self.active:
            return self
        import builtins
        import errno
        import io as _io

        def failing(real):
            def f(p, *a, **kw):
                if not isinstance(p, int) and self._is_pkg(p):
                    self.hits += 1
                    raise OSError(errno.EIO, 'Input/output error', str(p))
                return real(p, *a, **kw)
            return f

        def isfile(p, real=os.path.isfile):
            if self._is_pkg(p):
                self.hits += 1
                return False
            return real(p)
        for mod, name, new in ((builtins, 'open', failing(builtins.open)), (_io, 'open', failing(_io.open)), (os, 'stat', failing(os.stat)),
                               (os.path, 'getmtime', failing(os.path.getmtime)), (os.path, 'getsize', failing(os.path.getsize)),
                               (os.path, 'isfile', isfile), (os.path, 'exists', isfile)):
            self.saved.append((mod, name, getattr(mod, name)))
            setattr(mod, name, new)
        return self

    def __exit__(self, *a):
        for mod, name, old in reversed(self.saved):
            setattr(mod, name, old)
        self.saved = []
        return False


class C20(Check):
    id = 'C20'
    world = 'supervisor'
    level = 'exploration'
    design_ref = 'DESIGN.md 3.13'
    runs = {'quick': 1500, 'thorough': 30000}
    shrink_lists = (('ops',), ('conc', 'ks'))
    rule = ('scripts of child-process lifetimes for the REAL run_simple(use_reloader=True)/restart_with_reloader: each child starts '
            '(exit 0/3) or crashes (exit 1) with stderr produced by really raising from a catalogue (13 exception types, SyntaxError '
            'reports, chained exceptions, messages with markup / template syntax / non-ASCII / multi-line, depth 1..900 so that the '
            '1024-line ring buffer overflows) interleaved with noise and monitor-file lines (names with markup), truncated at a '
            'planned line; while the failsafe is live the fake reloader loop sends requests (any path, GET/POST/HEAD) and ends the '
            'episode with file-changed (restart) or interrupt; plus direct create_app calls with texts the pipe cannot carry '
            '(empty, None, bytes, numbers, non-printable). Non-trivial: a crashed child or odd direct text; distinct = (stderr kind, '
            'exception, message kind, truncation/overflow, end, request method).')
    assumptions = ('child processes, the HTTP server, threads, signals and the file-watching loop are scripted fakes',
                   'the traceback parser always falls back to the last line (DESIGN O5): the page naming type and message is judged, not the parse')
    components = {'real': ['clastic.server.run_simple / run_with_reloader / restart_with_reloader (supervisor loop, stderr ring buffer)',
                           'clastic.flaw.create_app + template', 'clastic dispatch, static assets'],
                  'stub': ['subprocess.Popen (scripted stderr + exit code)', 'make_server', 'thread', 'signal', 'reloader_loop', 'tty echo', 'test socket']}
    level_text = 'Seeded search over crash/restart scripts and error texts under the real supervisor loop; sampled.'
    level_note = 'Trusted: html.unescape as the inverse of the template escaping; the model of the 1024-line ring buffer.'
    required_probes = ('failsafe-asked-while-the-installation-is-unreadable', 'failsafe-under-other-interpreter-flags', 'two-browsers-on-a-fresh-failsafe-application', 'error-text-names-monitored-file', 'ring-buffer-overflow', 'restart-after-change', 'failsafe-shutdown-before-restart', 'type-and-message-named',
                       'markup-escaped', 'direct-non-text', 'truncated-traceback', 'syntaxerror-report', 'monitored-files-listed')

    # ---- generation --------------------------------------------------------
    def gen_stderr(self, rng):
        r = rng.random()
        if r < 0.12:
            return {'kind': 'syntaxerror', 'source': rng.choice(['def broken(:\n    pass\n', 'x = (1,\n', 'import\n', 'print "<b id=simx>"\n',
                                                               'if True:\nx=1\n']), 'fname': rng.choice(['mod', 'we<b id=simx>ird'])}
        if r < 0.22:
            return {'kind': 'lines', 'lines': rng.choice([['Segmentation fault'], ['Killed'], [MARKUP], ['{tb_str}'], ['no colon here'],
                                                          ['Traceback (most recent call last):'], ['warning: x', 'Error: ' + MARKUP], ['\x1b[31mred\x1b[0m']])}
        return {'kind': 'traceback', 'exc': rng.choice(EXCS), 'msg': rng.choice(sorted(MSGS)),
                'depth': rng.choice([1, 1, 2, 5, 40, 600, 900]), 'chained': rng.random() < 0.3}

    def generate(self, seed, tier):
        S = Streams(seed)
        rng, frng = S['ops'], S['faults']
        ops = []
        n = rng.randint(1, 6)
        for i in range(n):
            if rng.random() < 0.25:
                ops.append({'direct': {'text': rng.choice(['empty', 'none', 'bytes', 'number', 'random-printable', 'non-printable', 'markup',
                                                           'template', 'traceback', 'list']),
                                       'files': rng.choice(['none', 'empty', 'long', 'markup', 'mixed']),
                                       'requests': [[rng.choice(REQ_METHODS), rng.choice(PATHS)]]}})
                if rng.random() < 0.4:
                    ops[-1]['direct']['pkg_fault'] = True
                continue
            last = i == n - 1
            crash = frng.random() < 0.75
            child = {'rc': 1 if crash else rng.choice([0, 3, 3]), 'stderr': self.gen_stderr(frng) if (crash or frng.random() < 0.3) else None,
                     'noise': [frng.choice(['DeprecationWarning: x', ' * Running on http://x/', MARKUP, 'Exception ignored in: <f>', ''])
                               for _ in range(frng.randint(0, 4))],
                     'interleave': frng.choice([None, None, 3, 50]), 'truncate': frng.choice([None, None, None, 1, 2, 5]),
                     'mon_files': frng.choice([None, [], FILES[:1], FILES, frng.sample(FILES, 3)]), 'mon_pos': frng.choice([0, 3, 9999]),
                     'mention': frng.random() < 0.5}
            if child['rc'] == 1 and not child['stderr'] and not child['noise']:
                child['noise'] = ['boom']
            fs = {'requests': [[rng.choice(REQ_METHODS), rng.choice(PATHS)]
                               for _ in range(rng.randint(1, 3))],
                  'end': 'interrupt' if last else rng.choice(['changed', 'changed', 'interrupt', 'exit5'])}
            ops.append({'child': child, 'failsafe': fs})
        return {'world': 'supervisor', 'seed': seed, 'ops': ops}

    # ---- oracle --------------------------------------------------------------
    def judge_page(self, res, app, method, path, text, files, tb_spec, truncated, mode):
        ex = call_app(app, make_environ(method, path))
        return self.judge_exchange(res, ex, method, path, text, files, tb_spec, truncated, mode)

    def judge_exchange(self, res, ex, method, path, text, files, tb_spec, truncated, mode):
        K = 'C20/'
        res.ev(mode, method, path, '->', ex.code, len(ex.body))
        ctx = '%s %s %s (text %r...)' % (mode, method, path, (text if isinstance(text, (str, bytes)) else repr(text))[:60])
        if ex.escaped is not None:
            return res.violate(K + 'page/exception-escaped:%s' % type(ex.escaped).__name__, ctx + ' -> %r' % (ex.escaped,))
        if ex.code != 200:
            return res.violate(K + 'page/status-%s' % ex.code, ctx + ' -> %s\n%s' % (ex.status, ex.body[:400].decode('utf8', 'replace')))
        for e in ex.errors:
            return res.violate(K + 'page/protocol:' + e[0], ctx + ' -> %s %s' % e)
        if method == 'HEAD':
            return
        body = ex.body.decode('utf8', 'replace')
        if path.startswith('/clastic_assets/') and not (ex.header('Content-Type') or '').startswith('text/html'):
            return      # a real asset of the failsafe page (stylesheet), not the page itself
        if MARKUP in body or '<b id=simx>' in body:
            return res.violate(K + 'page/markup-unescaped', ctx + ' -> markup from the error text / file names appears verbatim')
        if isinstance(text, str):
            m = re.search(r'<pre>(.*?)</pre>', body, re.S)
            if not m:
                return res.violate(K + 'page/no-pre-block', ctx)
            try:
                text.encode('utf8')
                encodable = True
            except UnicodeEncodeError:
                encodable = False
            if encodable and html.unescape(m.group(1)) != text:
                got = html.unescape(m.group(1))
                i = next((k for k in range(min(len(got), len(text))) if got[k] != text[k]), min(len(got), len(text)))
                return res.violate(K + 'page/text-not-shown-escaped', ctx + ' -> un-escaping the <pre> block does not give the text back '
                                   '(first difference at %d: %r vs %r)' % (i, got[i:i + 40], text[i:i + 40]))
            if MARKUP in text:
                res.probe('markup-escaped')
            # a standard traceback ending in "Type: message": the page names both
            lines = text.splitlines()
            if tb_spec and tb_spec.get('kind') == 'traceback' and not truncated and lines and text.lstrip().startswith('Traceback (most recent call last):'):
                last = lines[-1]
                typ, sep, msg = last.partition(': ')
                if sep and ' ' not in typ and '\n' not in MSGS[tb_spec['msg']]:
                    esc = html.escape(typ)
                    outside_pre = body.replace(m.group(0), '')
                    if esc not in outside_pre or html.escape(msg, quote=True) not in outside_pre and html.escape(msg, quote=False) not in html.unescape(outside_pre) :
                        return res.violate(K + 'page/type-or-message-not-named', ctx + ' -> %r / %r not named outside the stack trace block' % (typ, msg[:60]))
                    res.probe('type-and-message-named')
            if truncated:
                res.probe('truncated-traceback')
            if tb_spec and tb_spec.get('kind') == 'syntaxerror':
                res.probe('syntaxerror-report')
        else:
            res.probe('direct-non-text')
        if files:
            for f in files:
                if isinstance(f, str) and html.escape(f) not in body and html.escape(f, quote=False) not in body and f not in html.unescape(body):
                    return res.violate(K + 'page/monitored-file-missing', ctx + ' -> %r is not listed' % f)
            res.probe('monitored-files-listed')

    # ---- two browsers at once on a freshly built failsafe application ------------
    def conc_setup(self, spec):
        text = make_traceback(spec['tb'])
        files = [resolve_file(f) for f in spec['files']]
        return text, files

    def conc_steps(self, spec):
        from sim.core.sched import BatonScheduler
        text, files = self.conc_setup(spec)
        try:
            app = flaw.create_app(text, list(files))
            s = BatonScheduler(['T0'], [], 'line', CONC_WATCH)
            s.run({'T0': lambda: call_app(app, make_environ('GET', '/'))})
            return max(s.steps, 10)
        except Exception:
            return 40      # (the plans are made all the same: what goes wrong is the executor's to report)

    def extra_plans(self, tier, base_seed):
        rng = Streams(base_seed)['conc']
        for j in range(3 if tier == 'quick' else 12):
            spec = {'tb': {'kind': 'traceback', 'exc': rng.choice(['KeyError', 'ValueError', 'CustomError']), 'msg': rng.choice(['plain', 'markup', 'colon']),
                           'depth': rng.choice([1, 3]), 'chained': rng.random() < 0.3},
                    'files': rng.sample(FILES, 4), 'paths': [rng.choice(['/', '/', '/x/y']), rng.choice(['/', '/', '/admin/'])]}
            n = self.conc_steps(spec)
            ks = list(range(1, n + 1, 2 if tier == 'quick' else 1))
            for i in range(0, len(ks), 25):
                yield {'world': 'supervisor', 'seed': base_seed, 'ops': [], 'conc': dict(spec, ks=ks[i:i + 25])}
        # the failsafe is built by whatever interpreter the developer started: optimisation levels strip asserts (-O) and
        # docstrings (-OO), UTF-8 mode changes the default encodings
        for flags in ([['-OO'], ['-O'], ['-X', 'utf8']] if tier == 'quick' else [['-OO'], ['-O'], ['-X', 'utf8'], ['-OO', '-X', 'utf8'], ['-X', 'dev'], ['-B'], ['-s', '-OO']]):
            yield {'world': 'supervisor', 'seed': base_seed, 'ops': [],
                   'interp': {'flags': flags, 'tb': {'kind': 'traceback', 'exc': rng.choice(['KeyError', 'ValueError']), 'msg': rng.choice(['plain', 'markup']), 'depth': 2},
                              'files': rng.sample(FILES[:8], 3), 'paths': ['/', '/some/page']}}

    # ---- the supervisor's interpreter was started with other flags -----------------
    INTERP_SCRIPT = r'''
import json, sys
out = {'stage': 'import'}
try:
    spec = json.loads(sys.stdin.read())
    sys.path.insert(0, spec['repo'])
    import warnings
    warnings.simplefilter('ignore')
    from clastic import flaw
    out['stage'] = 'create'
    app = flaw.create_app(spec['text'], list(spec['files']))
    out['stage'] = 'request'
    from werkzeug.test import Client
    from werkzeug.wrappers import Response
    pages = []
    for path in spec['paths']:
        r = Client(app, Response).get(path)
        pages.append([r.status_code, r.get_data().decode('utf8', 'replace')])
    out = {'stage': 'done', 'pages': pages}
except BaseException as e:
    out['error'] = '%s: %s' % (type(e).__name__, e)
sys.stdout.write(json.dumps(out))
'''

    def execute_interp(self, plan):
        import json
        import subprocess
        res = RunResult()
        spec = plan['interp']
        text = make_traceback(spec['tb'])
        files = [resolve_file(f) for f in spec['files']]
        env = dict(os.environ)
        env.pop('PYTHONOPTIMIZE', None)
        env.pop('SIM_STAGE', None)
        p = subprocess.run([sys.executable] + spec['flags'] + ['-c', self.INTERP_SCRIPT], env=env, timeout=120, stdout=subprocess.PIPE, stderr=subprocess.PIPE,
                           input=json.dumps({'repo': os.path.abspath(os.environ.get('VERIF_REPO', '/repo')), 'text': text, 'files': files, 'paths': spec['paths']}).encode('ascii'))
        res.steps = 1
        res.nontrivial = True
        res.fire('interpreter_flags:' + ' '.join(spec['flags']))
        res.probe('failsafe-under-other-interpreter-flags')
        res.sigs.add('interp|%s' % ' '.join(spec['flags']))
        try:
            out = json.loads(p.stdout.decode('utf8'))
        except ValueError:
            raise HarnessError('interpreter %s gave no result: rc=%s %s' % (spec['flags'], p.returncode, p.stderr[-400:].decode('utf8', 'replace')))
        res.ev('interp', ' '.join(spec['flags']), out['stage'], out.get('error', '')[:80])
        ctx = 'python %s: create_app(<traceback text>, %d files), GET %s' % (' '.join(spec['flags']), len(files), spec['paths'])
        if out['stage'] != 'done':
            res.violate('C20/interpreter-flags/failsafe-not-available@%s' % out['stage'], ctx + ' -> %s' % out.get('error'))
            return res
        for (code, body), path in zip(out['pages'], spec['paths']):
            if code != 200:
                res.violate('C20/interpreter-flags/page-status-%s' % code, ctx + ' -> %s for %s' % (code, path))
                return res
            m = re.search(r'<pre>(.*?)</pre>', body, re.S)
            if not m or html.unescape(m.group(1)) != text:
                res.violate('C20/interpreter-flags/text-not-shown-escaped', ctx + ' -> the page of %s does not show the text' % path)
                return res
        return res

    def execute_conc(self, plan):
        from sim.core.sched import BatonScheduler
        res = RunResult()
        spec = plan['conc']
        text, files = self.conc_setup(spec)
        for k in spec['ks']:
            try:
                app = flaw.create_app(text, list(files))       # the application the supervisor has just built: nobody has asked it yet
            except Exception as e:
                res.violate('C20/create_app-raised:%s@conc' % type(e).__name__, 'create_app(<traceback text>, %d files) raised %r' % (len(files), e))
                return res
            got = {}

            def task(name, path):
                def run():
                    got[name] = call_app(app, make_environ('GET', path))
                return run
            sched = BatonScheduler(['T0', 'T1'], [[k, 'T1']], 'line', CONC_WATCH)
            sched.run({'T0': task('T0', spec['paths'][0]), 'T1': task('T1', spec['paths'][1])})
            res.steps += 1
            res.fire('preempt', len(sched.switches))
            if sched.switches:
                res.nontrivial = True
                res.probe('two-browsers-on-a-fresh-failsafe-application')
                res.sigs.add('conc|%s' % (sched.switches[0][3],))
            if sched.errors:
                res.violate('C20/conc/thread-raised:%s' % type(list(sched.errors.values())[0]).__name__, '%r' % (sched.errors,))
                return res
            for name, path in (('T0', spec['paths'][0]), ('T1', spec['paths'][1])):
                self.judge_exchange(res, got[name], 'GET', path, text, files, spec['tb'], False,
                                    'conc: first browser parked at its line %d, second served meanwhile; page of %s' % (k, name))
                if res.violations:
                    return res
        return res

    # ---- execution ---------------------------------------------------------
    def execute(self, plan):
        if plan.get('conc'):
            return self.execute_conc(plan)
        if plan.get('interp'):
            return self.execute_interp(plan)
        res = RunResult()
        K = 'C20/'
        supervised = [op for op in plan['ops'] if 'child' in op]
        direct = [op for op in plan['ops'] if 'direct' in op]
        for op in direct:
            d = op['direct']
            text = {'empty': '', 'none': None, 'bytes': b'Traceback \xff\xfe bytes', 'number': 42, 'random-printable': 'qwe rty\tuiop: asd',
                    'non-printable': '\x00\x01\x02\x7f\x1b[0m', 'markup': MARKUP, 'template': '{tb_str}{#x}{/x}{~lb}{>partial/}',
                    'traceback': make_traceback({'exc': 'KeyError', 'msg': 'markup', 'depth': 3}), 'list': ['a', 'b'],
                    'surrogate': 'bad \udcff name'}[d['text']]
            files = {'none': None, 'empty': [], 'long': ['/f/%d.py' % i for i in range(400)], 'markup': list(FILES[1:5]),
                     'mixed': [resolve_file(f) for f in FILES]}[d['files']]
            given_files = list(files) if files is not None else None
            res.fire('direct_text:' + d['text'])
            res.nontrivial = True
            res.sigs.add('direct|%s|%s' % (d['text'], d['files']))
            try:
                app = flaw.create_app(text, files)
            except Exception as e:
                res.violate(K + 'create_app-raised:%s@%s' % (type(e).__name__, d['text']), 'create_app(%r, files=%s) raised %r' % (text, d['files'], e))
                return res
            reqs = d.get('requests', [['GET', '/']])
            if d.get('pkg_fault'):
                reqs = [['GET', '/']] + list(reqs) + [['GET', '/']]
            for ri, (method, path) in enumerate(reqs):
                with PackageUnreadable(active=bool(d.get('pkg_fault')) and ri > 0) as pu:
                    self.judge_page(res, app, method, path, text, given_files,
                                    {'kind': 'traceback', 'exc': 'KeyError', 'msg': 'markup'} if d['text'] == 'traceback' else None, False, 'direct:' + d['text'])
                if pu.active:
                    res.fire('package_files_unreadable', max(1, pu.hits))
                    res.probe('failsafe-asked-while-the-installation-is-unreadable')
                if res.violations:
                    return res
        if supervised:
            # the last episode must end the supervisor
            eps = [dict(op) for op in supervised]
            world = World(eps, res, self)
            sysproxy = SysProxy()
            with Seams() as sm:
                sm.patch(srv, 'subprocess', world)
                sm.patch(srv, 'make_server', world.make_server)
                sm.patch(srv, 'thread', world)
                sm.patch(srv, 'reloader_loop', world.reloader_loop)
                sm.patch(srv, 'signal', FakeSignal())
                sm.patch(srv, 'open_test_socket', lambda *a, **k: True)
                sm.patch(srv, 'enable_tty_echo', lambda *a, **k: None)
                sm.patch(srv, 'sys', sysproxy)
                out = io.StringIO()
                exit_code = 'returned'
                try:
                    with contextlib.redirect_stdout(out):
                        srv.run_simple('localhost', 5000, lambda e, s: None, use_reloader=True)
                except SystemExit as e:
                    exit_code = e.code
                except KeyboardInterrupt:
                    exit_code = 'kbd'
                except InvalidPlan:
                    exit_code = 'script-exhausted'
                except Exception as e:
                    res.violate(K + 'supervisor/raised:%s' % type(e).__name__,
                                'run_simple raised %r after events %s\n%s' % (e, world.events[-8:], traceback.format_exc()[-800:]))
                    return res
            res.ev('events', ' '.join(world.events), 'exit', exit_code)
            for ep in supervised:
                c = ep['child']
                kind = (c['stderr'] or {}).get('kind', 'none')
                res.fire('child_crash:' + kind if c['rc'] == 1 else 'child_exit_%d' % c['rc'])
                if c.get('truncate'):
                    res.fire('stderr_truncate')
                if c.get('interleave'):
                    res.fire('stderr_interleave')
                if c['rc'] == 1:
                    res.nontrivial = True
                s = c['stderr'] or {}
                res.sigs.add('child|%s|%s|%s|%s|%s|%s' % (c['rc'], kind, s.get('exc'), s.get('msg'), bool(c.get('truncate')),
                                                          (ep.get('failsafe') or {}).get('end')))
            if not res.violations:
                self.judge_supervisor(res, world, supervised)
        res.steps = len(plan['ops'])
        return res

    def judge_supervisor(self, res, world, supervised):
        K = 'C20/supervisor/'
        ev = world.events
        # every failsafe server that was made was shut down and closed
        for s in world.servers:
            if not (s.shut and s.closed):
                res.violate(K + 'failsafe-left-running', 'a failsafe server was never shut down; events %s' % ev)
                return
        if world.servers:
            res.probe('failsafe-shutdown-before-restart')
        # model of the episode sequence: which children must have been spawned
        expect_spawn = 0
        for k, ep in enumerate(supervised):
            expect_spawn += 1
            c = ep['child']
            if c['rc'] == 3:
                continue
            scraped = world.scraped[k] if k < len(world.scraped) else False   # did the child write anything to stderr?
            if c['rc'] == 1 and scraped:
                if (ep.get('failsafe') or {}).get('end') == 'changed':
                    res.probe('restart-after-change')
                    continue
            break
        if world.spawned != expect_spawn:
            res.violate(K + 'restart-count', 'spawned %d children, the script implies %d; events %s' % (world.spawned, expect_spawn, ev))


CHECK = C20()
