"""C14 -- static serving never leaves its roots and serves files faithfully
(filesystem world: real scratch tree, fault-injecting filesystem seam).

plan = {config: {roots: {name: [file...]}, apps: [[root names]...], prefix, slash, ghost},
        ops: [{op:'get', target, method, ims, faults:[...], consume} | {op:'touch', root, rel, gen, dt}]}
"""
import errno
import mimetypes
import os
import shutil
import tempfile

# tmpfs keeps 64-bit timestamps (a file can carry an mtime datetime cannot represent) and is fast
SCRATCH = '/dev/shm' if os.path.isdir('/dev/shm') and os.access('/dev/shm', os.W_OK) else None
from urllib.parse import quote
from wsgiref.handlers import format_date_time
from email.utils import parsedate_to_datetime

import clastic.static as cstatic
from clastic import Application
from clastic.static import StaticApplication

from sim.core.base import Check, RunResult, Streams, InvalidPlan, canon
from sim.core.gateway import make_environ, call_app
from sim.core.seams import Seams, EPOCH, SimClock, make_datetime_proxy
from sim.core.fsseam import FsSeam

ERRNOS = [errno.ENOENT, errno.EACCES, errno.EIO, errno.EISDIR]
NAMES = ['a.txt', 'b.bin', 'empty', 'noext', 'sp ace.txt', 'dotted.name.tar.gz', 'ünï.txt',
         '.hidden', '..double', '...', 'index.html', 'data.json', 'img.png', 'UPPER.TXT', 'x',
         # legal file names that str.isprintable()/isalnum()-style "sanity checks" reject: no-break and ideographic space,
         # zero-width joiner (emoji sequences), soft hyphen, direction mark, tab, DEL; and URL-significant characters
         'nb\u00a0sp.txt', 'wide\u3000space.txt', 'fam\U0001f468\u200d\U0001f469.txt', 'soft\u00adhyphen.txt', 'rtl\u200fmark.txt',
         'tab\there.txt', 'del\x7f.txt', 'plus+and%25.txt', 'hash#tag.txt', 'semi;colon=eq.txt', 'back\\slash.txt', 'amp&ersand.txt',
         'CJK\u4e2d\u6587.txt', 'combining-e\u0301.txt']
DIRS = ['', '', 'sub', 'sub/deep', 'other', '.dotdir', 'sub/..weird',
        # nested directories with longish names: no component is long, the relative path as a whole is (> 255, > 1024 characters)
        '/'.join(['nested-directory-%d-' % i + 'n' * 48 for i in range(4)]), '/'.join(['deep%02d-' % i + 'd' * 90 for i in range(11)])]
MAX_CALLS = 16
SECRETS = {'above': 'SECRET-ABOVE-4f1c9a', 'beside': 'SECRET-BESIDE-77e2b0', 'sibling': 'SECRET-SIBLING-a91d33', 'namepart': 'SECRET-NAMEPART-5c07e1'}


def content_for(root, rel, kind, gen=0):
    import hashlib
    # (a long relative path is named by its hash: the content's nature must show within the first block of the file)
    shown = rel if len(rel) < 200 else 'sha1:' + hashlib.sha1(rel.encode('utf8')).hexdigest()
    head = ('FILE[%s|%s|g%d]' % (root, shown, gen)).encode('utf8')
    if kind == 'empty':
        return b''
    if kind == 'bin':
        return head + b'\x00\x01\x02\xff\xfe' + bytes(range(256)) * 3
    if kind == 'big':
        return head + (b'0123456789abcdef' * 4096)
    return head + b' plain text line\n' * 5


def clean_rel(rel):
    segs = rel.split('/')
    return all(s and s not in ('.', '..') for s in segs) and not segs[0].startswith('..')


class World(object):
    """Scratch tree + model of it + application under test."""

    def spelled(self, r):
        """The search directory as the program spells it: the same directory, written another way."""
        rd = self.rootdir[r]
        how = (self.cfg.get('root_spelling') or {}).get(r)
        if how == 'dotdot':
            return os.path.join(os.path.dirname(rd), os.path.basename(rd), os.pardir, os.path.basename(rd))
        if how == 'trailing-slash':
            return rd + os.sep
        if how == 'dot':
            return os.path.join(os.path.dirname(rd), os.curdir, os.path.basename(rd))
        if how == 'double-slash':
            return os.path.dirname(rd) + os.sep + os.sep + os.path.basename(rd)
        return rd

    def __init__(self, cfg):
        self.cfg = cfg
        self.base = tempfile.mkdtemp(prefix='simfs-', dir=SCRATCH)
        self.area = os.path.join(self.base, 'area')
        os.makedirs(self.area)
        self.model = {}     # root -> {rel: {'data': bytes, 'mtime': float, 'kind': str}}
        self.rootdir = {}
        self._w(os.path.join(self.base, 'secret_above.txt'), SECRETS['above'].encode())
        self._w(os.path.join(self.area, 'secret_beside.txt'), SECRETS['beside'].encode())
        for rname, files in sorted(cfg['roots'].items()):
            # the directory's name on disk: usually plain, sometimes with characters that separate things elsewhere
            # (PATH lists, option strings); a directory named like the part in front of such a character exists, too
            dname = (cfg.get('root_dirname') or {}).get(rname, rname)
            rd = os.path.join(self.area, dname)
            os.makedirs(rd)
            self.rootdir[rname] = rd
            for sepc in (':', ';', ','):
                if sepc in dname:
                    part = os.path.join(self.area, dname.split(sepc)[0])
                    if not os.path.exists(part):
                        os.makedirs(part)
                        for f in files:
                            pp = os.path.join(part, f['rel'])
                            os.makedirs(os.path.dirname(pp), exist_ok=True)
                            self._w(pp, SECRETS['namepart'].encode())
            self.model[rname] = {}
            for f in files:
                data = content_for(rname, f['rel'], f['kind'])
                p = os.path.join(rd, f['rel'])
                os.makedirs(os.path.dirname(p), exist_ok=True)
                self._w(p, data)
                mt = EPOCH + f['mtime_off']
                os.utime(p, (mt, mt))
                self.model[rname][f['rel']] = {'data': data, 'mtime': os.path.getmtime(p), 'kind': f['kind'],
                                               'oddtime': bool(f.get('oddtime'))}
            # a sibling directory whose name merely starts with the root's name
            sib = rd + '_evil'
            os.makedirs(sib)
            self._w(os.path.join(sib, 'leak.txt'), SECRETS['sibling'].encode())
        self.ghost = cfg.get('ghost')  # {'root':..., 'rel':...} file that may *appear*

    @staticmethod
    def _w(p, data):
        with open(p, 'wb') as f:
            f.write(data)

    def build_app(self):
        entries = []
        if self.cfg.get('overlay'):
            # another static application mounted BEFORE the others at a longer prefix (an overlay for one sub-directory) whose
            # own directory holds none of the files asked for: whatever it cannot serve is the next application's to serve
            ov = os.path.join(self.area, 'overlay-dir')
            os.makedirs(ov, exist_ok=True)
            self._w(os.path.join(ov, 'only-in-overlay.txt'), b'overlay\n')
            entries.append((self.cfg['prefix'].rstrip('/') + '/sub/', StaticApplication(ov)))
        for roots in self.cfg['apps']:
            if len(roots) == 1 and self.cfg.get('single_as_string'):
                sapp = StaticApplication(self.spelled(roots[0]))       # one directory, given as a plain string
            else:
                sapp = StaticApplication([self.spelled(r) for r in roots])
            entries.append((self.cfg['prefix'], sapp))
        return Application(entries, slash_mode=self.cfg.get('slash', 'redirect'))

    def roots_in_order(self):
        return [r for roots in self.cfg['apps'] for r in roots]

    def app_index_of_path(self, path):
        path = os.path.normpath(path)        # the program may have spelled its search directory differently
        for ai, roots in enumerate(self.cfg['apps']):
            for r in roots:
                if path.startswith(self.rootdir[r] + os.sep):
                    return ai
        return None

    def lookup(self, rel):
        """[(app index, root, entry)] for every root that has *rel*, in search order."""
        out = []
        for ai, roots in enumerate(self.cfg['apps']):
            for r in roots:
                e = self.model[r].get(rel)
                if e is not None:
                    out.append((ai, r, e))
        return out

    def vanish(self, path):
        path = os.path.normpath(path)
        if os.path.isfile(path) and path.startswith(self.area + os.sep):
            st = os.stat(path)
            with open(path, 'rb') as f:
                self._vanished.append((path, f.read(), st.st_mtime))
            os.unlink(path)
            return True
        return False

    def appear(self):
        g = self.ghost
        if not g:
            return False
        p = os.path.join(self.rootdir[g['root']], g['rel'])
        if os.path.exists(p):
            return False
        os.makedirs(os.path.dirname(p), exist_ok=True)
        self._w(p, content_for(g['root'], g['rel'], 'text', 99))
        self._appeared.append(p)
        return True

    def begin_op(self):
        self._vanished = []
        self._appeared = []

    def end_op(self):
        for path, data, mt in self._vanished:
            self._w(path, data)
            os.utime(path, (mt, mt))
        for p in self._appeared:
            if os.path.exists(p):
                os.unlink(p)

    def close(self):
        shutil.rmtree(self.base, ignore_errors=True)


def http_date(ts):
    return format_date_time(ts)


def expected_type(rel, entry):
    mt, _ = mimetypes.guess_type(rel)
    if mt:
        return mt
    if entry['kind'] in ('bin',):
        return 'application/octet-stream'
    return 'text/plain'


class C14(Check):
    id = 'C14'
    world = 'filesystem'
    level = 'fault_enumeration'
    design_ref = 'DESIGN.md 3.8'
    runs = {'quick': 3000, 'thorough': 40000}
    shrink_lists = (('ops',),)
    rule = ('generated scratch trees (1-3 search roots, 1-2 overlapping StaticApplications, secrets beside/above '
            'the roots) x request histories (valid paths, dot-segment / absolute / encoded escapes, conditional '
            'requests, touches) with filesystem faults placed by call index inside a request (OSError x4 errnos, '
            'isfile->False, vanish, appear, read error); plus a complete single-fault sweep (every call index x '
            'every kind) over a fixed request catalogue. Non-trivial: a fault fired or an escaping/dot-segment '
            'path was requested; distinct = distinct request-level cases (path class, conditional kind, method, server consumption, roots holding the file, fired fault kind@call site@application, status).')
    assumptions = ('real kernel path semantics on a scratch tree under $TMPDIR; no symlinks; POSIX only',
                   'os.path.isfile never raises in reality, so it is made to answer False instead',
                   'file handles left open after a faulted request are counted, not judged (DESIGN O6)')
    components = {'real': ['clastic.static', 'clastic dispatch / non-breaking fallthrough', 'werkzeug FileWrapper',
                           'kernel filesystem on a scratch tree'],
                  'stub': ['filesystem failures and TOCTOU races (FsSeam)', 'WSGI server / HTTP client (SimGateway)']}
    level_text = ('Per request the single-fault positions are few (<= 13 filesystem calls) and are swept completely '
                  'over a request catalogue (fault_enumeration); trees, paths, histories and double faults are '
                  'sampled by seed.')
    level_note = ('Trusted: the harness model of the tree, mimetypes.guess_type as the definition of "guessed '
                  'Content-Type". Confinement is judged by the kernel, not a path model.')
    required_probes = ('conditional-and-plain-request-at-the-same-time', 'server-zone-with-daylight-saving', 'server-zone-not-utc', 'fault-harmless-served', 'fallthrough-to-second-app', 'conditional-304', 'escape-refused',
                       'read-error-after-start')

    # ---- generation --------------------------------------------------------
    def gen_config(self, rng):
        nroots = rng.choice([1, 2, 2, 3])
        rnames = ['root%d' % (i + 1) for i in range(nroots)]
        roots = {}
        pool = []
        for _ in range(rng.randint(3, 9)):
            d = rng.choice(DIRS)
            n = rng.choice(NAMES)
            pool.append((d + '/' + n) if d else n)
        pool = sorted(set(pool))
        # (within one root) a path cannot be both a file and a directory
        pool = [p for p in pool if not any(q.startswith(p + '/') for q in pool)]
        for r in rnames:
            files = []
            for rel in pool:
                if rng.random() < (0.75 if r == rnames[0] else 0.5):
                    files.append({'rel': rel, 'kind': rng.choice(['text', 'text', 'bin', 'empty', 'big']),
                                  # seconds .. days .. the other half of the year (daylight-saving differs there)
                                  'mtime_off': -rng.choice([0, 1, 37, 3600, 86400 * 3, 86400 * 120, 86400 * 182, 86400 * 250])
                                  - rng.choice([0, 0, 0.25, 0.5, 0.75])})
                    if rng.random() < 0.1:
                        # a file from the future relative to the server clock (clock skew, an unpacked archive)
                        files[-1]['mtime_off'] = rng.choice([1.0, 3600.0, 86400.0 * 365, 4e8])
                    if rng.random() < 0.12:
                        # boundary values: exactly the epoch, one second either side, a fraction that rounds to it
                        files[-1]['mtime_off'] = rng.choice([0.0, 0.0, 1.0, -1.0, 0.4, -0.4, 86400.0]) - EPOCH
                    if rng.random() < 0.08:
                        # a time datetime cannot represent (year > 9999) or before the epoch: unusual but legal on disk
                        files[-1]['mtime_off'] = rng.choice([2.6e11 - 1.7e9, 2.6e11 - 1.7e9, -1.8e9 - 1.7e9, -86400.0 * 365 * 400])
                        files[-1]['oddtime'] = True
            if not files:
                files.append({'rel': 'a.txt', 'kind': 'text', 'mtime_off': -100})
            roots[r] = files
        if len(pool) % 2 == 0:
            # round 14: two files sharing an extension mimetypes does not know, one text, one binary (the type of such a
            # file can only come from its own content). Decided by a value that exists anyway: no extra draw.
            roots[rnames[0]] = roots[rnames[0]] + [{'rel': 'notes.zzq', 'kind': 'text', 'mtime_off': -41}, {'rel': 'image.ZZQ', 'kind': 'bin', 'mtime_off': -43}]
        if nroots >= 2 and rng.random() < 0.35:
            # an EARLIER root has a directory where a LATER root has a regular file of the same name
            later_r = rng.choice(rnames[1:])
            f = rng.choice(roots[later_r])
            earlier = rnames[rng.randrange(rnames.index(later_r))]
            if not any(g['rel'] == f['rel'] or g['rel'].startswith(f['rel'] + '/') or f['rel'].startswith(g['rel'] + '/')
                       for g in roots[earlier]):
                roots[earlier].append({'rel': f['rel'] + '/inside.txt', 'kind': 'text', 'mtime_off': -77})
        if nroots >= 2 and rng.random() < 0.6:
            k = rng.randint(1, nroots - 1)
            apps = [rnames[:k], rnames[k:]]
        else:
            apps = [rnames]
        if rng.random() < 0.5:
            # the search order is the order GIVEN, whatever the directories are called (theme before base, ...)
            apps = [rng.sample(a, len(a)) for a in apps]
        ghost = {'root': rng.choice(rnames), 'rel': rng.choice(['ghost.txt', 'sub/ghost.txt'])}
        ghost_ok = not any(f['rel'] == ghost['rel'] or ghost['rel'].startswith(f['rel'] + '/')
                           for fs in roots.values() for f in fs)
        return {'roots': roots, 'apps': apps, 'prefix': rng.choice(['/s/', '/s', '/', '/static/deep/']),
                'slash': rng.choice(['redirect', 'redirect', 'rewrite', 'strict']),
                'ghost': ghost if ghost_ok else None,
                'root_spelling': dict((r, rng.choice(['dotdot', 'dotdot', 'trailing-slash', 'dot', 'double-slash'])) for r in rnames if rng.random() < 0.3),
                'root_dirname': dict((r, rng.choice(['site:v2-', 'assets;old-', 'a,b-', 'with space-', 'rel=1-']) + r) for r in rnames if rng.random() < 0.3),
                'single_as_string': rng.random() < 0.5,
                'overlay': rng.random() < 0.3,
                # the server's time zone (POSIX TZ strings: no zone database needed), several with daylight saving
                'tz': rng.choice([None, None, 'UTC', 'CET-1CEST,M3.5.0,M10.5.0/3', 'EST5EDT,M3.2.0,M11.1.0',
                                  'NZST-12NZDT,M9.5.0,M4.1.0/3', 'IST-5:30', 'XXX+11'])}

    def gen_target(self, rng, cfg):
        """-> (target, rel-as-decoded) relative path requested under the prefix."""
        rels = sorted(set(f['rel'] for fs in cfg['roots'].values() for f in fs))
        dirs = sorted(set(os.path.dirname(r) for r in rels if '/' in r))
        kind = rng.choice(['valid'] * 5 + ['dots', 'escape', 'abs', 'enum', 'mutate', 'dir', 'ghost', 'missing', 'compat'])
        if kind == 'valid':
            rel = rng.choice(rels)
        elif kind == 'dots':
            rel = rng.choice(rels)
            segs = rel.split('/')
            i = rng.randint(0, len(segs) - 1)
            ins = rng.choice([['.'], ['zz', '..'], ['sub', '..'], ['.', '.']])
            rel = '/'.join(segs[:i] + ins + segs[i:])
        elif kind == 'escape':
            up = '/'.join(['..'] * rng.randint(1, 4))
            tgt = rng.choice(['secret_beside.txt', 'secret_above.txt', 'root1_evil/leak.txt', 'root2/a.txt',
                              'area/secret_beside.txt', 'root1/' + rng.choice(rels)])
            pre = rng.choice(['', 'sub/', 'sub/deep/', 'nonexistent/', rng.choice(rels) + '/'])
            rel = pre + up + '/' + tgt
        elif kind == 'compat':
            # characters that only LOOK like (or normalise to) dots and slashes: they are ordinary name characters
            dd = rng.choice(['\u2025', '\uff0e\uff0e', '\u2024\u2024', '.\uff0e', '\ufe52\ufe52'])
            sl = rng.choice(['/', '/', '\uff0f', '\u2215'])
            tgt = rng.choice(['secret_beside.txt', 'secret_above.txt', 'root1_evil/leak.txt'])
            rel = rng.choice(['', 'sub/']) + dd + sl + (dd + sl if rng.random() < 0.5 else '') + tgt
            if rng.random() < 0.3:
                rel = '\uff0f{area}\uff0fsecret_beside.txt'
        elif kind == 'abs':
            rel = rng.choice(['/{base}/secret_above.txt', '/{area}/secret_beside.txt', '//{area}/secret_beside.txt',
                              '/{area}/root1_evil/leak.txt', '/etc/passwd', '/{area}/root1/' + rng.choice(rels),
                              'sub//{area}/secret_beside.txt'])
        elif kind == 'enum':
            pieces = [rng.choice(rels).split('/')[0], '.', '..', '', '...', '{area}', 'root1_evil', 'secret_beside.txt']
            rel = '/'.join(rng.choice(pieces) for _ in range(rng.randint(1, 4)))
        elif kind == 'mutate':
            rel = rng.choice(rels)
            m = rng.choice(['trail', 'dslash', 'enc-dot', 'double-enc', 'nul', 'bslash', 'case', 'dotdot-suffix'])
            rel = {'trail': rel + '/', 'dslash': rel.replace('/', '//') if '/' in rel else '/' + rel,
                   'enc-dot': '%2e%2e/' + rel, 'double-enc': '%252e%252e/' + rel, 'nul': rel + '%00.txt',
                   'bslash': '..\\' + rel, 'case': rel.swapcase(), 'dotdot-suffix': rel + '/..'}[m]
            return rel if '%' in rel else quote(rel, safe='/'), None
        elif kind == 'dir':
            rel = rng.choice(dirs) if dirs else 'sub'
        elif kind == 'ghost':
            rel = cfg['ghost']['rel'] if cfg.get('ghost') else 'ghost.txt'
        else:
            rel = rng.choice(['nope.txt', 'sub/nope', 'a.txt.bak', 'a.tx'])
        return quote(rel, safe='/{}'), None

    def gen_faults(self, rng, n_max=2):
        faults = []
        for _ in range(rng.choice([1, 1, 1, 2]) if n_max > 1 else 1):
            kind = rng.choice(['oserror'] * 4 + ['vanish', 'vanish', 'appear'])
            f = {'call': rng.randint(1, 12), 'kind': kind}
            if kind == 'oserror':
                f['errno'] = rng.choice(ERRNOS)
            faults.append(f)
        return faults

    def generate(self, seed, tier):
        S = Streams(seed)
        cfg = self.gen_config(S['config'])
        ops_rng, f_rng = S['ops'], S['faults']
        fault_free = f_rng.random() < 0.25
        ops = []
        for _ in range(ops_rng.randint(8, 40)):
            if ops_rng.random() < 0.08:
                r = ops_rng.choice(sorted(cfg['roots']))
                f = ops_rng.choice(cfg['roots'][r])
                ops.append({'op': 'touch', 'root': r, 'rel': f['rel'], 'gen': ops_rng.randint(1, 9),
                            'dt': ops_rng.choice([1, 2, 60, 86400])})
                continue
            if ops_rng.random() < 0.08:
                # two clients at the same time: one revalidates (If-Modified-Since = the file's date), one fetches
                sch = S['sched']
                rels = sorted(set(f['rel'] for fs in cfg['roots'].values() for f in fs
                                  if clean_rel(f['rel']) and not any(seg.startswith('.') for seg in f['rel'].split('/')))) or ['a.txt']
                gran = sch.choice(['line', 'line', 'ins'])
                hi = 160 if gran == 'line' else 900
                ops.append({'op': 'conc', 'rels': [ops_rng.choice(rels), ops_rng.choice(rels)], 'granularity': gran,
                            'order': sch.choice([['A', 'B'], ['B', 'A']]),
                            'preempts': sorted([sch.randint(1, hi), sch.choice(['demote', 'A', 'B'])] for _ in range(sch.randint(1, 6)))})
                continue
            target, _ = self.gen_target(ops_rng, cfg)
            op = {'op': 'get', 'target': target, 'method': ops_rng.choice(['GET'] * 5 + ['HEAD']),
                  'ims': ops_rng.choice([None, None, None, 'echo', 'echo', 'before', 'after', 'garbage']),
                  'consume': ops_rng.choice(['drain'] * 6 + ['abort', 'noiter']),
                  # what the server offers as wsgi.file_wrapper: nothing / wsgiref's / one that transmits from the descriptor
                  'fw': (lambda r: 'sendfile' if r < 0.12 else (r < 0.3))(ops_rng.random()), 'faults': []}
            if not fault_free and f_rng.random() < 0.45:
                op['faults'] = self.gen_faults(f_rng)
            ops.append(op)
        return {'world': 'filesystem', 'seed': seed, 'config': cfg, 'ops': ops}

    def extra_plans(self, tier, base_seed):
        """Complete single-fault sweep: every call index x every fault kind, over
        a fixed tree and request catalogue (two overlapping static apps)."""
        cfg = {'roots': {'root1': [{'rel': 'a.txt', 'kind': 'text', 'mtime_off': -100},
                                   {'rel': 'sub/blob', 'kind': 'bin', 'mtime_off': -50.5},
                                   {'rel': 'noext', 'kind': 'text', 'mtime_off': -7}],
                         'root2': [{'rel': 'a.txt', 'kind': 'text', 'mtime_off': -10},
                                   {'rel': 'only2.txt', 'kind': 'text', 'mtime_off': -20},
                                   {'rel': 'sub/blob', 'kind': 'bin', 'mtime_off': -30}],
                         'root3': [{'rel': 'only3', 'kind': 'bin', 'mtime_off': -5},
                                   {'rel': 'a.txt', 'kind': 'empty', 'mtime_off': -1}]},
               'apps': [['root1', 'root2'], ['root3']], 'prefix': '/s/', 'slash': 'redirect',
               'ghost': {'root': 'root2', 'rel': 'ghost.txt'}}
        targets = ['a.txt', 'sub/blob', 'noext', 'only2.txt', 'only3', 'ghost.txt', 'sub/../a.txt']
        kinds = [{'kind': 'oserror', 'errno': e} for e in ERRNOS] + [{'kind': 'vanish'}, {'kind': 'appear'}]
        imss = [None, 'echo', 'before'] if tier == 'thorough' else [None, 'echo']
        for t in targets:
            for ims in imss:
                ops = []
                for n in range(1, MAX_CALLS + 1):
                    for k in kinds:
                        f = dict(k)
                        f['call'] = n
                        ops.append({'op': 'get', 'target': t, 'method': 'GET', 'ims': ims, 'consume': 'drain',
                                    'fw': False, 'faults': [f]})
                yield {'world': 'filesystem', 'seed': base_seed, 'config': cfg, 'ops': ops, 'sweep': True}

    # ---- execution ---------------------------------------------------------
    def execute(self, plan):
        import time as _time
        tz = plan['config'].get('tz') or 'UTC'
        old_tz = os.environ.get('TZ')
        os.environ['TZ'] = tz
        _time.tzset()
        try:
            res = self._execute(plan)
        finally:
            if old_tz is None:
                os.environ.pop('TZ', None)
            else:
                os.environ['TZ'] = old_tz
            _time.tzset()
        if tz != 'UTC':
            res.probe('server-zone-not-utc')
            if ',' in tz:
                res.probe('server-zone-with-daylight-saving')
        return res

    def _execute(self, plan):
        res = RunResult()
        w = World(plan['config'])
        seam = FsSeam()
        seam.on_vanish = w.vanish
        seam.on_appear = w.appear
        last_modified = {}    # target -> Last-Modified the client was last sent
        try:
            with Seams() as sm:
                seam.install(sm, cstatic)
                # the server clock (static.py does not read it today; if it ever does, it reads the simulated one)
                clock = SimClock()
                _, simdt = make_datetime_proxy(clock, local_zone=True)
                sm.patch(cstatic, 'datetime', simdt)
                seam.begin()
                app = w.build_app()
                for step, op in enumerate(plan['ops']):
                    if op['op'] == 'touch':
                        self.do_touch(w, op, res)
                        continue
                    if op['op'] == 'conc':
                        self.do_conc(w, app, seam, op, step, res)
                        if res.violations:
                            break
                        continue
                    self.do_get(w, app, seam, op, step, res, last_modified)
                    if op['faults'] or res.violations:
                        # recovery: the same request, fault-free, right away
                        if len(res.violations) == 0:
                            op2 = dict(op, faults=[], consume='drain')
                            self.do_get(w, app, seam, op2, step, res, last_modified, recovery=True)
                    if res.violations:
                        break
        finally:
            w.close()
        res.steps = len(plan['ops'])
        res.sim_time = 0.0
        return res

    def do_conc(self, w, app, seam, op, step, res):
        """A: conditional GET carrying exactly the file's date (-> 304, no body); B: plain GET (-> 200, the bytes).
        Served at the same time on two threads; no filesystem faults."""
        from sim.core.sched import BatonScheduler
        from sim.core import runner
        watch = (os.path.join(runner.REPO, 'clastic') + os.sep, '<sinter')
        cfg = w.cfg
        prefix = cfg['prefix'] if cfg['prefix'].endswith('/') else cfg['prefix'] + '/'
        plan = []
        for name, rel, conditional in (('A', op['rels'][0], True), ('B', op['rels'][1], False)):
            cands = w.lookup(rel)
            if not cands or cands[0][2].get('oddtime') or cands[0][2]['mtime'] is None:
                return          # nothing to say about this pair
            e = cands[0][2]
            hdr = {'If-Modified-Since': http_date(round(e['mtime']))} if conditional else {}
            plan.append((name, rel, e, conditional, make_environ('GET', prefix + quote(rel), headers=hdr)))
        got = {}
        seam.begin()
        tasks = dict((name, (lambda name=name, env=env: got.__setitem__(name, call_app(app, env, validate=False)))) for name, _, _, _, env in plan)
        sched = BatonScheduler(op.get('order', ['A', 'B']), op.get('preempts', []), op.get('granularity', 'line'), watch)
        sched.run(tasks)
        seam.begin()
        res.fire('preempt', len(sched.switches))
        res.probe('conditional-and-plain-request-at-the-same-time')
        res.nontrivial = True
        res.ev(step, 'conc', op['rels'], 'switches', len(sched.switches), [got[n].code if n in got else None for n in ('A', 'B')])
        if sched.errors:
            res.violate('C14/concurrent/thread-raised:%s' % type(list(sched.errors.values())[0]).__name__, '%r' % (sched.errors,))
            return
        for name, rel, e, conditional, env in plan:
            ex = got[name]
            ctx = 'step %d concurrent %s GET %s%s (the other: %s)' % (step, name, prefix, rel, [p[1] for p in plan if p[0] != name])
            if ex.escaped is not None:
                return res.violate('C14/concurrent/exception-escaped:%s' % type(ex.escaped).__name__, ctx + ' -> %r' % (ex.escaped,))
            if conditional:
                if ex.code != 304 or ex.body:
                    return res.violate('C14/concurrent/conditional-not-304', ctx + ' carried the file\'s own date -> %s with %d body bytes' % (ex.status, len(ex.body)))
            else:
                if ex.code != 200 or ex.body != e['data']:
                    return res.violate('C14/concurrent/plain-not-served', ctx + ' -> %s, %d bytes (file has %d)' % (ex.status, len(ex.body), len(e['data'])))

    def do_touch(self, w, op, res):
        e = w.model.get(op['root'], {}).get(op['rel'])
        if e is None:
            raise InvalidPlan('touch of unknown file')
        data = content_for(op['root'], op['rel'], e['kind'], op['gen'])
        p = os.path.join(w.rootdir[op['root']], op['rel'])
        w._w(p, data)
        e['data'] = data
        mt = e['mtime'] + op['dt']
        os.utime(p, (mt, mt))
        e['mtime'] = os.path.getmtime(p)
        res.ev('touch', op['root'], op['rel'], op['gen'], op['dt'])

    def do_get(self, w, app, seam, op, step, res, last_modified, recovery=False):
        cfg = w.cfg
        raw = op['target'].replace('{base}', quote(w.base.lstrip('/'))).replace('{area}', quote(w.area.lstrip('/')))
        prefix = cfg['prefix'] if cfg['prefix'].endswith('/') else cfg['prefix'] + '/'
        target = prefix + raw
        # what the client asks for, decoded once like a server does
        # the path as the (real) request object sees it: leading slashes of PATH_INFO collapse
        from sim.core.gateway import wsgi_str
        from urllib.parse import unquote_to_bytes
        seen = '/' + unquote_to_bytes(target.partition('?')[0]).decode('utf8', 'replace').lstrip('/')
        rel = seen[len(prefix):] if seen.startswith(prefix) else None
        if rel is None:
            rel = '\x00not-under-prefix'
        norm = os.path.normpath(rel) if rel else '.'
        escapes = norm.startswith('..') or norm.startswith('/') or '\x00' in rel
        cands = w.lookup(norm) if not escapes else []
        headers = {}
        ims = op.get('ims')
        ims_ts = None
        if ims == 'echo':
            if target in last_modified:
                headers['If-Modified-Since'] = last_modified[target]
                ims_ts = parsedate_to_datetime(last_modified[target]).timestamp()
            else:
                ims = None
        elif ims == 'before':
            ims_ts = EPOCH - 86400 * 30
            headers['If-Modified-Since'] = http_date(ims_ts)
        elif ims == 'after':
            ims_ts = EPOCH + 86400 * 30
            headers['If-Modified-Since'] = http_date(ims_ts)
        elif ims == 'garbage':
            headers['If-Modified-Since'] = 'yesterday-ish'
        fw = None
        if op.get('fw') == 'sendfile':
            from sim.core.gateway import SendfileWrapper as fw      # a server that sends files from their descriptors
        elif op.get('fw'):
            from wsgiref.util import FileWrapper as fw
        env = make_environ(op['method'], target, headers=headers, file_wrapper=fw)
        w.begin_op()
        seam.begin(op['faults'])
        try:
            ex = call_app(app, env, consume=op.get('consume', 'drain'), abort_after=1, validate=op.get('fw') != 'sendfile')
            if ex.sendfile_used:
                res.probe('server-sends-file-from-its-descriptor')
        finally:
            w.end_op()
        fired = list(seam.fired)
        calls = list(seam.calls)
        leaked = seam.open_handles()
        seam.begin()
        for kind, site, path in fired:
            res.fire('%s@%s' % (kind, site))
        tag = 'recovery' if recovery else 'get'
        res.ev(step, tag, op['method'], op['target'], 'ims', ims, 'faults', canon(op['faults']), 'fired',
               canon([(k, s) for k, s, _ in fired]), 'ncalls', len(calls), '->', ex.code,
               'escaped', type(ex.escaped).__name__ if ex.escaped else None, len(ex.body))
        if leaked:
            res.probe('handles-open-after-request', len(leaked))
        pclass = 'escape' if escapes else ('clean' if clean_rel(rel) else 'dotty')
        if fired or escapes or not clean_rel(rel):
            res.nontrivial = True
            res.sigs.add('%s,%s,%s,%s,%s,%s,%s' % (pclass, ims, op['method'], op.get('consume'), len(cands),
                                                 [(k, s, w.app_index_of_path(p)) for k, s, p in fired], ex.code))
        K = 'C14/'
        ctx = 'step %d %s %s %s faults=%s fired=%s calls=%s' % (
            step, tag, op['method'], target, op['faults'], [(k, s) for k, s, _ in fired], [c[0] for c in calls])
        body = ex.body
        # --- universal safety clauses -----------------------------------
        for name, marker in SECRETS.items():
            if marker.encode() in body:
                return res.violate(K + 'secret-disclosed:' + name, ctx + ' -> body contains a file from outside the roots')
        read_fault_in_body = (ex.escaped is not None and ex.escaped_phase in ('iter', 'close')
                              and any(s == 'read' for _, s, _ in fired))
        if ex.escaped is not None and not read_fault_in_body:
            return res.violate(K + 'exception-escaped:%s@%s' % (type(ex.escaped).__name__, self.site(fired)),
                               ctx + ' -> %r escaped the application (phase %s)' % (ex.escaped, ex.escaped_phase))
        if read_fault_in_body:
            res.probe('read-error-after-start')
        if ex.code is None or ex.code >= 500 or ex.code not in (200, 304, 403, 404, 302, 301):
            return res.violate(K + 'status-%s@%s' % (ex.code, self.site(fired)),
                               ctx + ' -> status %s (allowed: file bytes, 304, 403/404)' % ex.status)
        if ex.code in (301, 302):
            return  # slash redirect of the mount point itself; not a file response
        for e in ex.errors:
            if e[0] != 'wsgiref-validate' or not fired:
                return res.violate(K + 'protocol:' + e[0], ctx + ' -> %s %s' % e)
        if escapes:
            if ex.code not in (403, 404):
                return res.violate(K + 'escape-not-refused', ctx + ' -> %s for a path whose normal form %r leaves the root'
                                   % (ex.status, norm))
            res.probe('escape-refused')
            return
        # --- what may be served ----------------------------------------------
        allowed = list(cands)
        if w.ghost and norm == w.ghost['rel'] and any(k == 'appear' for k, _, _ in fired):
            g = w.ghost
            allowed.append((w.app_index_of_path(os.path.join(w.rootdir[g['root']], g['rel'])), g['root'],
                            {'data': content_for(g['root'], g['rel'], 'text', 99), 'mtime': None, 'kind': 'text'}))
        if ex.code == 200:
            consume = op.get('consume', 'drain')
            best = None
            for ai, r, e in allowed:
                if not self.body_ok(body, e['data'], op['method'], consume, read_fault_in_body):
                    continue
                prob = self.header_problem(ex, e, norm)
                if best is None or (prob is None and best[1] is not None):
                    best = ((ai, r, e), prob)
            if best is None:
                return res.violate(K + 'wrong-bytes', ctx + ' -> 200 with %d bytes %r..., not the bytes of %r in any root'
                                   % (len(body), body[:40], norm))
            (ai, r, e), prob = best
            if prob is not None:
                return res.violate(K + prob[0], ctx + ' -> ' + prob[1])
            if not fired and cands and not any(c[2].get('oddtime') for c in cands) and (ai, r) != (cands[0][0], cands[0][1]):
                return res.violate(K + 'search-order', ctx + ' -> served from %s, first root having it is %s' % (r, cands[0][1]))
            if not recovery:
                last_modified[target] = ex.header('Last-Modified')
            if fired:
                res.probe('fault-harmless-served')
                if ai is not None and ai > 0 and any(w.app_index_of_path(p) == 0 for _, _, p in fired):
                    res.probe('fallthrough-to-second-app')
        elif ex.code == 304:
            if body:
                return res.violate(K + '304-with-body', ctx)
            if ims_ts is None:
                return res.violate(K + '304-unasked', ctx + ' -> 304 without a valid If-Modified-Since')
            if not allowed:
                return res.violate(K + '304-for-missing', ctx)
            if not fired and cands and not cands[0][2].get('oddtime') and not round(cands[0][2]['mtime']) <= ims_ts:
                return res.violate(K + '304-stale', ctx + ' -> 304 although the file (%r) is newer than the client copy (%r)'
                                   % (http_date(round(cands[0][2]['mtime'])), headers.get('If-Modified-Since')))
            res.probe('conditional-304')
        else:  # 403 / 404
            odd = any(e.get('oddtime') for _, _, e in allowed)
            if odd:
                res.probe('odd-mtime-refused-not-500')
            if not fired and not recovery and allowed and not odd and clean_rel(rel) and op['method'] in ('GET', 'HEAD'):
                return res.violate(K + 'file-not-served', ctx + ' -> %s for an existing regular file inside a root' % ex.status)
            if recovery and allowed and not odd and clean_rel(rel):
                return res.violate(K + 'no-recovery@%s' % self.site(fired), ctx + ' -> %s on the fault-free retry' % ex.status)
            # non-breaking: a fault confined to the first application must let the second one answer
            if fired and len(cfg['apps']) > 1 and clean_rel(rel):
                hit_apps = set(w.app_index_of_path(p) for _, _, p in fired)
                # what a later application would serve: the FIRST of its search paths that has the file
                first_of_app = {}
                for c in cands:
                    first_of_app.setdefault(c[0], c)
                later = [c for ai_, c in sorted(first_of_app.items()) if ai_ not in hit_apps
                         and all(ai_ > h for h in hit_apps if h is not None) and not c[2].get('oddtime')]
                if later and len(op['faults']) == 1:
                    return res.violate(K + 'breaking-error@%s' % self.site(fired),
                                       ctx + ' -> %s although a later static application has the file' % ex.status)
        # conditional: echoing the Last-Modified we were sent must give 304
        if ims_ts is not None and not fired and ex.code == 200 and cands:
            e0 = cands[0][2]
            if not e0.get('oddtime') and round(e0['mtime']) <= ims_ts:
                return res.violate(K + 'conditional-not-304', ctx + ' -> 200 although If-Modified-Since %r is not older than the file time %r'
                                   % (headers.get('If-Modified-Since'), http_date(round(e0['mtime']))))

    @staticmethod
    def header_problem(ex, e, norm):
        cl = ex.header('Content-Length')
        if cl is None or not cl.isdigit() or int(cl) != len(e['data']):
            return ('content-length', 'Content-Length %r for a %d byte file' % (cl, len(e['data'])))
        lm = ex.header('Last-Modified')
        if lm is None:
            return ('no-last-modified', 'no Last-Modified header')
        if e['mtime'] is not None and not e.get('oddtime') and lm != http_date(round(e['mtime'])):
            return ('last-modified-wrong', '%r, file time %r' % (lm, http_date(round(e['mtime']))))
        ct = (ex.header('Content-Type') or '').partition(';')[0].strip()
        if ct != expected_type(norm, e):
            return ('content-type', '%r, expected %r' % (ct, expected_type(norm, e)))
        return None

    @staticmethod
    def body_ok(body, data, method, consume, read_fault):
        if method == 'HEAD':
            return body == b''
        if consume == 'drain' and not read_fault:
            return body == data
        return data.startswith(body)

    @staticmethod
    def site(fired):
        if not fired:
            return 'nofault'
        k, s, _ = fired[-1]
        return '%s:%s' % (k.split(':')[0], s)

    def simplify(self, plan):
        for i, op in enumerate(plan['ops']):
            if op.get('op') == 'get' and len(op.get('faults', [])) > 1:
                for j in range(len(op['faults'])):
                    c = {k: v for k, v in plan.items()}
                    c['ops'] = [dict(o) for o in plan['ops']]
                    c['ops'][i]['faults'] = [f for k, f in enumerate(op['faults']) if k != j]
                    yield c


CHECK = C14()
