"""C12 -- concurrent requests on one Application do not interfere (thread world).

plan = {config, requests:[{name, kind, id, method, target, body}], granularity,
        order:[names], preempts:[[step, target]]}
"""
import hashlib
import os

from sim.core.base import Check, RunResult, Streams, canon
from sim.core.gateway import make_environ, call_app
from sim.core.sched import BatonScheduler
from sim.core.seams import SimClock, EPOCH
from sim.core import runner
from sim.worlds import threads_app

WATCH = (os.path.join(runner.REPO, 'clastic') + os.sep, '<sinter', threads_app.__file__)

# request kinds: (kind, method, target template, body)
KINDS = [
    ('hi', 'GET', '/hi/{nm}?id={i}', b''),
    ('head', 'HEAD', '/hi/{nm}?id={i}', b''),
    ('ctx', 'GET', '/ctx/{n}/{nm}/x{i}?id={i}', b''),
    ('fallA', 'GET', '/fall/a{nm}?id={i}', b''),
    ('fallB', 'GET', '/fall/n{nm}?id={i}', b''),
    ('fallNone', 'GET', '/fall/nn{nm}?id={i}', b''),
    ('missing', 'GET', '/missing/{nm}?id={i}', b''),
    ('m405', 'GET', '/post?id={i}', b''),
    ('post', 'POST', '/post?id={i}', b'body-{i}'),
    ('item_get', 'GET', '/item/{nm}?id={i}', b''),
    ('item_head', 'HEAD', '/item/{nm}?id={i}', b''),
    ('item_post', 'POST', '/item/{nm}?id={i}', b'body-{i}'),
    ('item_put', 'PUT', '/item/{nm}?id={i}', b'body-{i}'),
    ('item_del', 'DELETE', '/item/{nm}?id={i}', b''),
    ('doc', 'GET', '/doc?id={i}', b''),
    ('docv2', 'GET', '/doc?v=2&id={i}', b''),
    ('go', 'GET', '/go?id={i}', b''),
    ('cart', 'GET', '/cart?add={nm}{i}&id={i}', b''),
    ('keep', 'GET', '/keep?id={i}', b''),
    ('logout', 'GET', '/logout?id={i}', b''),
    ('boom', 'GET', '/boom?id={i}', b''),
    ('helpA', 'GET', '/helpa?id={i}', b''),
    ('helpB', 'GET', '/helpb?id={i}', b''),
    ('redir', 'GET', '/dir?id={i}', b''),
    ('dir', 'GET', '/dir/?id={i}', b''),
    ('br', 'GET', '/br/{nm}{i}/?id={i}', b''),
    ('brredir', 'GET', '/br/{nm}{i}?id={i}', b''),
    ('ret409', 'GET', '/ret409?id={i}', b''),
    ('raise403', 'GET', '/raise403?id={i}', b''),
    ('sub', 'GET', '/sub/echo/{nm}?id={i}', b''),
    ('nonresp', 'GET', '/nonresp?id={i}', b''),
]
KIND_MAP = dict((k[0], k) for k in KINDS)
NAMES = ['alice', 'bob', 'carol', 'dave', 'erin']
ACCEPTS = [None, 'text/html', 'application/json', 'text/plain', 'application/xml']


def make_request(kind, i, nm, accept=None):
    _, method, tmpl, body = KIND_MAP[kind]
    r = {'kind': kind, 'id': i, 'method': method,
         'target': tmpl.format(nm=nm, i=i, n=100 + i),
         'body': body.decode().format(i=i)}
    if accept:
        r['accept'] = accept
    return r


_APPS = {}


def app_for(cfg):
    k = canon(cfg)
    if k not in _APPS:
        if len(_APPS) > 100:
            _APPS.clear()
        _APPS[k] = threads_app.build(cfg)
    return _APPS[k]


def do_request(app, req):
    headers = {}
    if req.get('accept'):
        headers['Accept'] = req['accept']
    if req['kind'] == 'cart':
        headers['Cookie'] = threads_app.cart_cookie(['apple'])       # every client of this kind holds an EQUAL cart
    env = make_environ(req['method'], req['target'], headers=headers, body=req.get('body', '').encode())
    if req.get('recycled'):
        # the server keeps one environ dict per connection and re-fills it for the next request: whatever the application
        # (or werkzeug) left in there from the previous request is still in it
        old = make_environ('GET', '/hi/previous?id=77', headers={'Accept': 'text/plain'})
        old['sim.ids'], old['sim.guids'], old['sim.ds'], old['sim.req_objs'] = [], [], [], []
        call_app(app, old, validate=False)
        old.update(env)
        for k in [k for k in old if k.startswith('HTTP_') and k not in env]:
            del old[k]
        env = old
    env['sim.ids'] = []
    env['sim.guids'] = []
    env['sim.ds'] = []
    env['sim.req_objs'] = []
    ex = call_app(app, env, validate=False)
    return summarise(ex, env)


def summarise(ex, env):
    hdrs = {}
    for k, v in ex.headers:
        kl = k.lower()
        if kl in ('location', 'content-type', 'content-length') or kl.startswith('x-sim-'):
            hdrs[kl] = v
        elif kl == 'set-cookie':
            # does the saved cookie carry an expiry date?  (the value itself is signed per request)
            hdrs['set-cookie-expires'] = ('expires=' in v.lower())
        elif kl == 'allow':
            hdrs[kl] = ','.join(sorted(x.strip() for x in v.split(',')))
    ds = env['sim.ds']
    return {
        'code': ex.code,
        'headers': hdrs,
        'body': ex.body.decode('utf8', 'replace'),
        'escaped': type(ex.escaped).__name__ if ex.escaped is not None else None,
        'proto': [e[0] for e in ex.errors],
        'ids': sorted(set(env['sim.ids']), key=repr),
        'guids': sorted(set(env['sim.guids']), key=repr),
        'one_dispatch_state': len(set(id(d) for d in ds)) <= 1,
        'one_request_obj': len(set(id(r) for r in env['sim.req_objs'])) <= 1,
    }


def predict(cfg, r):
    """What the request gets when served alone, PREDICTED from the application's source (sim/worlds/threads_app.py)
    instead of measured on the shared application -- a measurement would inherit whatever an earlier request did to that
    application.  -> (status, body | None, Allow | None, Location | None); None = that part is not predicted."""
    i = r['id']
    tok = ('tok-%d' % i) if cfg.get('tok', True) else None
    eptok = ('eptok-%d' % i) if cfg.get('eptok', True) else None
    path = r['target'].split('?')[0]
    segs = [x for x in path.split('/') if x]
    nm = segs[-1] if segs else ''
    mode = cfg.get('slash', 'redirect')
    k = r['kind']
    if k == 'hi':
        return (200, 'hi|%s|%s|%s|%d' % (nm, tok, eptok, i), None, None)
    if k == 'head':
        return (200, '', None, None)
    if k == 'ctx':
        ctx = {'n': int(segs[1]), 'rest': segs[2:], 'tok': tok, 'id': str(i)}
        rtok = None
        if cfg.get('rendermw', True):
            ctx['seen_by_render_mw'] = str(i)
            rtok = 'rtok-%d' % i
        items = sorted((kk, repr(v)) for kk, v in ctx.items())
        return (200, 'ctx|' + '|'.join('%s=%s' % kv for kv in items) + '|rtok=%s|%d' % (rtok, i), None, None)
    if k == 'fallA':
        return (200, 'fallA|%s|%s|%d' % (nm, tok, i), None, None)
    if k == 'fallB':
        return (200, 'fallB|%s|%s|%d' % (nm, tok, i), None, None)
    if k == 'fallNone':
        return (403, None, None, None)
    if k in ('item_get', 'item_head'):
        return (200, '' if k == 'item_head' else 'iget|%s|%s|%d' % (nm, tok, i), None, None)
    if k == 'item_post':
        return (200, 'ipost|%s|%s|%d' % (nm, tok, i), None, None)
    if k == 'item_put':
        return (200, 'iput|%s|%s|%d' % (nm, tok, i), None, None)
    if k == 'item_del':
        return (405, None, 'GET,HEAD,POST,PUT', None)
    if k == 'go':
        return (302, None, None, 'http://sim.test/hi/there')
    if k == 'keep':
        return (200, 'keep|%d' % i, None, None, {'set-cookie-expires': False})
    if k == 'logout':
        return (200, 'logout|%d' % i, None, None, {'set-cookie-expires': True})
    if k == 'cart':
        add = r['target'].split('add=')[1].split('&')[0]
        return (200, 'cart|apple,%s|%d' % (add, i), None, None)
    if k == 'doc':
        return (200, 'doc|%s|%d' % (tok, i), None, None)
    if k == 'docv2':
        return (200, 'docv2|%s|%d' % (tok, i), None, None)
    if k == 'post':
        return (200, 'post|%s|%d|body-%d' % (tok, i, i), None, None)
    if k == 'm405':
        return (405, None, 'POST', None)
    if k == 'missing':
        return (404, None, None, None)
    if k in ('boom', 'nonresp'):
        return (500, None, None, None)
    if k in ('helpA', 'helpB'):
        # two endpoints failing inside one helper: the error is the same, the way there is not -- a client that asks
        # for JSON is shown the call stack, and that is the stack of ITS request
        if r.get('accept') == 'application/json':
            own, other = ('ep_help_a', 'ep_help_b') if k == 'helpA' else ('ep_help_b', 'ep_help_a')
            return (500, None, None, None, {'body_has': own, 'body_lacks': other})
        return (500, None, None, None)
    if k == 'ret409':
        return (409, None, None, None)
    if k == 'raise403':
        return (403, None, None, None)
    if k == 'dir':
        return (200, 'dir|%s|%d' % (tok, i), None, None)
    if k == 'redir':
        return {'redirect': (302, None, None, 'http://sim.test/dir/?id=%d' % i), 'rewrite': (200, 'dir|%s|%d' % (tok, i), None, None),
                'strict': (404, None, None, None)}[mode]
    if k == 'br':
        return (200, 'br|%s|%s|%d' % (nm, tok, i), None, None)
    if k == 'brredir':
        return {'redirect': (302, None, None, 'http://sim.test/br/%s/?id=%d' % (nm, i)), 'rewrite': (200, 'br|%s|%s|%d' % (nm, tok, i), None, None),
                'strict': (404, None, None, None)}[mode]
    if k == 'sub':
        return (200, 'sub|%s|subres|subres-%d|%s|%d' % (nm, i, tok, i), None, None)
    return None


def comparable(s):
    d = {k: v for k, v in s.items() if k not in ('ids', 'guids')}
    d['n_ids'] = len(s['ids'])   # every layer of one request sees ONE id
    d['n_guids'] = len(s['guids'])
    return d


_CAL = {}
_CAL_APPS = {}


def solo_steps(cfg, req, gran):
    """Number of yield points of one request served alone (calibration for
    the generator; generation is a function of the seed and the code)."""
    key = (canon(cfg), req['kind'], req.get('accept'), gran)
    # (calibrated without per-request extras such as a recycled environ: the table must not depend on which request of a
    # kind this process happened to see first)
    req = dict((k, v) for k, v in req.items() if k != 'recycled')
    if key not in _CAL:
        # an application of its own: calibration must not touch the ones the runs are judged on
        ck = canon(cfg)
        if ck not in _CAL_APPS:
            _CAL_APPS[ck] = threads_app.build(cfg)
        app = _CAL_APPS[ck]
        do_request(app, req)
        s = BatonScheduler(['T0'], [], gran, WATCH)
        s.run({'T0': lambda: do_request(app, req)})
        _CAL[key] = s.steps
    return _CAL[key]


_FUNCS = {}
_CANON_CFG = {'tok': True, 'eptok': True, 'rendermw': True, 'echo_errors': True, 'slash': 'redirect'}


def solo_funcs(cfg, req):
    """Names of the functions (of the tree under test and the generated chains) a request of this KIND runs through.
    The catalogue is made once per process, always the same way (one fresh application, every kind in catalogue order,
    warmed twice), so that it is a function of the code alone -- not of what this process happened to run before."""
    if not _FUNCS:
        app = threads_app.build(_CANON_CFG)
        for kind in [k[0] for k in KINDS]:
            r = dict(make_request(kind, 11, 'calib'), name='T0')
            do_request(app, r)
            do_request(app, r)
            s = BatonScheduler(['T0'], [], 'line', WATCH, record_funcs=True)
            s.run({'T0': lambda: do_request(app, r)})
            _FUNCS[kind] = sorted(n for n in s.func_steps if not n.startswith('ep_') and n not in ('<lambda>', 'rid'))
    return _FUNCS[req['kind']]


class C12(Check):
    id = 'C12'
    world = 'threads'
    level = 'exploration'
    design_ref = 'DESIGN.md 3.6'
    level_text = ('Seeded search over thread interleavings of the real dispatch path: a complete depth-1 '
                  'pre-emption sweep over request pairs plus PCT/random/burst multi-pre-emption schedules at '
                  'line and bytecode-instruction granularity, each replayable from its schedule. Sampling, '
                  'not proof: exploration is the honest level for a schedule-quantified property.')
    level_note = ('Trusted: CPython 3.12 sys.monitoring event delivery, the baton scheduler, GIL atomicity of '
                  'single instructions. Yield points exist only in clastic/generated/harness code.')
    runs = {'quick': 2000, 'thorough': 40000}
    shrink_lists = (('preempts',), ('hot_bits',), ('hot_funcs',), ('ticks',), ('requests',), ('marathon', 'T0'), ('marathon', 'T1'), ('marathon', 'T2'), ('marathon', 'T3'))
    hashseeds = {'quick': ['1:OA'], 'thorough': ['1:OA', 2]}
    rule = ('seeded schedules (PCT priority-change, uniform random, targeted bursts) plus a complete '
            'depth-1 pre-emption sweep over ordered request pairs; 2-4 real threads on one shared '
            'Application, pre-empted only at sys.monitoring LINE/INSTRUCTION events in clastic, '
            'sinter-generated chains and the harness app. A run is non-trivial if at least one '
            'baton switch happened while >=2 requests were in flight; distinct = distinct '
            '(request kinds, switch-location sequence).')
    assumptions = (
        'pre-emption points exist only in clastic, generated chains and harness app code; a race that '
        'needs a switch inside werkzeug or C code is out of reach',
        'free-running stress is not used (not replayable)',
        'CPython 3.12 GIL semantics: single bytecode instructions are atomic',
    )
    components = {
        'real': ['clastic (Application.dispatch, BoundRoute, sinter chains, errors)', 'werkzeug 1.0.1',
                 'OS threads (parked/released one at a time)'],
        'stub': ['WSGI server and HTTP clients (SimGateway)', 'thread scheduling choice (BatonScheduler)'],
    }
    required_probes = ('long-lived-workers', 'function-focused-preemption', 'predicted-response-compared', 'marathon', 'cold-application', 'switch-in-clastic', 'switch-in-sinter', 'gran-ins', 'gran-line', 'threads-4')

    # ---- generation ------------------------------------------------------
    def gen_config(self, rng):
        return {'tok': rng.random() < 0.85, 'eptok': rng.random() < 0.7, 'rendermw': rng.random() < 0.7,
                'echo_errors': rng.random() < 0.7, 'slash': rng.choice(['redirect', 'redirect', 'rewrite', 'strict'])}

    def generate(self, seed, tier):
        S = Streams(seed)
        cfg = self.gen_config(S['config'])
        ops = S['ops']
        nthreads = ops.choice([2, 2, 3, 3, 4])
        ids = ops.sample(range(10, 99), nthreads)
        reqs = []
        # a third of the runs: every thread sends the SAME kind of request (other id, name, Accept): whatever the framework
        # keeps per route / per error kind / per method set is shared by exactly such requests
        same = ops.choice(KINDS)[0] if ops.random() < 0.35 else None
        for t in range(nthreads):
            r = make_request(same or ops.choice(KINDS)[0], ids[t], ops.choice(NAMES), ops.choice(ACCEPTS))
            r['name'] = 'T%d' % t
            if ops.random() < 0.12:
                r['recycled'] = True
            reqs.append(r)
        sch = S['sched']
        ins_share = 0.5
        gran = 'ins' if sch.random() < ins_share else 'line'
        steps = [solo_steps(cfg, r, gran) for r in reqs]
        total = sum(steps)
        names = [r['name'] for r in reqs]
        order = list(names)
        sch.shuffle(order)
        mode = sch.choice(['pct', 'pct', 'uniform', 'burst', 'hot', 'hot'])
        pre = []
        hot_funcs, hot_bits = [], []
        if mode == 'hot':
            # function-focused: threads are parked INSIDE one to three functions of the framework, at whatever line
            names_f = sorted(set(f for r in reqs for f in solo_funcs(cfg, r)))
            hot_funcs = sch.sample(names_f, min(len(names_f), sch.choice([1, 2, 3])))
            hot_bits = [1 if sch.random() < 0.5 else 0 for _ in range(60)]
        if mode == 'hot':
            pass
        elif mode == 'pct':
            d = sch.choice([1, 2, 2, 3, 4])
            for _ in range(d):
                pre.append([sch.randint(1, max(1, total)), 'demote'])
        elif mode == 'uniform':
            p = sch.choice([0.01, 0.03, 0.1]) if gran == 'line' else sch.choice([0.003, 0.01, 0.03])
            for k in range(1, total + 1):
                if sch.random() < p:
                    pre.append([k, sch.choice(names)])
        else:  # burst: many switches inside a short window (around dispatch/execute)
            first = steps[names.index(order[0])]
            start = sch.randint(1, max(1, first))
            width = sch.randint(2, 30) if gran == 'line' else sch.randint(5, 150)
            for k in range(start, min(total, start + width) + 1):
                if sch.random() < 0.6:
                    pre.append([k, sch.choice(names)])
        pre.sort(key=lambda x: x[0])
        return {'world': 'threads', 'seed': seed, 'config': cfg, 'requests': reqs, 'granularity': gran,
                'order': order, 'preempts': pre, 'mode': mode, 'hot_funcs': hot_funcs, 'hot_bits': hot_bits,
                'clock_start': EPOCH + 100.0 * (seed % (1 << 20)),
                # cold: the threads hit a freshly built application whose very first requests these are
                # (lazy initialisation races); the expected responses come from a warm twin
                'cold': S['config'].random() < 0.3,
                # the wall clock (time.time is the simulated clock during the run) ticks at these yield points
                'ticks': sorted([sch.randint(1, max(1, total)), sch.choice([1.0, 1.0, 0.4, 61.0])] for _ in range(sch.choice([0, 0, 1, 2, 3])))}

    def depth1_plans(self, tier, base_seed):
        """Complete depth-1 sweep: for ordered pairs (A, B): run A to yield
        point k, B to completion, then resume A -- for every k."""
        cfg = {'tok': True, 'eptok': True, 'rendermw': True, 'echo_errors': True, 'slash': 'redirect'}
        kinds = [k[0] for k in KINDS]
        rng = Streams(base_seed)['sweep']
        pairs = [(a, b) for a in kinds for b in kinds]
        mixed = [p for p in pairs if p[0] != p[1]]
        if tier == 'quick':
            # every same-kind pair (two clients of ONE route / error kind: where per-route state is shared), mixed pairs sampled
            plan_pairs = {'line': [(a, a) for a in kinds] + rng.sample(mixed, 10)}
        else:
            # (the number of pairs grows with the square of the catalogue: mixed pairs are sampled at this tier, too)
            plan_pairs = {'line': [(a, a) for a in kinds] + rng.sample(mixed, 150),
                          'ins': [(a, a) for a in kinds] + rng.sample(mixed, 25)}
        # kinds that share code further in (one helper, one path, one pattern): both clients ask for JSON
        siblings = [('helpA', 'helpB'), ('helpB', 'helpA'), ('fallA', 'fallB'), ('doc', 'docv2'), ('item_get', 'item_post'), ('boom', 'helpA')]
        grans = sorted(plan_pairs)
        for a, b in siblings:
            ra = dict(make_request(a, 11, 'alice', 'application/json'), name='T0')
            rb = dict(make_request(b, 22, 'bob', 'application/json'), name='T1')
            n = solo_steps(cfg, ra, 'line')
            for k in range(1, n + 1, 4 if tier == 'quick' else 1):
                yield {'world': 'threads', 'seed': base_seed, 'config': cfg, 'requests': [ra, rb], 'granularity': 'line',
                       'order': ['T0', 'T1'], 'preempts': [[k, 'T1']], 'mode': 'depth1-siblings'}
        for gran in grans:
            for a, b in plan_pairs[gran]:
                ra = make_request(a, 11, 'alice', 'text/html' if a == b else None)
                ra['name'] = 'T0'
                rb = make_request(b, 22, 'bob', 'application/json' if a == b else None)
                rb['name'] = 'T1'
                n = solo_steps(cfg, ra, gran)
                stride = 1 if gran == 'line' else (1 if tier == 'thorough' else 3)
                for k in range(1, n + 1, stride):
                    yield {'world': 'threads', 'seed': base_seed, 'config': cfg, 'requests': [ra, rb],
                           'granularity': gran, 'order': ['T0', 'T1'], 'preempts': [[k, 'T1']],
                           'mode': 'depth1'}
        # the wall clock moves on (into the next second) at the very moment A is parked: whatever is derived from the
        # time of day (identifiers, stamps) is read by A before and by B after the tick
        tick_pairs = [('hi', 'hi'), ('post', 'missing')] if tier == 'quick' else [(a, a) for a in kinds]
        for a, b in tick_pairs:
            ra = make_request(a, 11, 'alice')
            ra['name'] = 'T0'
            rb = make_request(b, 22, 'bob')
            rb['name'] = 'T1'
            n = solo_steps(cfg, ra, 'line')
            for k in range(1, n + 1):
                yield {'world': 'threads', 'seed': base_seed, 'config': cfg, 'requests': [ra, rb], 'granularity': 'line',
                       'order': ['T0', 'T1'], 'preempts': [[k, 'T1']], 'ticks': [[k, 1.0]], 'mode': 'depth1-tick'}
        # the very first requests of a freshly built application (lazy initialisation): A pre-empted at every line,
        # B (an unknown URL / a wrong method / a plain hit) served completely in between
        cold_pairs = [('hi', 'missing'), ('hi', 'm405'), ('missing', 'hi'), ('item_del', 'item_post'), ('ctx', 'boom')]
        if tier == 'quick':
            cold_pairs = cold_pairs[:3]
        for a, b in cold_pairs:
            ra = make_request(a, 11, 'alice')
            ra['name'] = 'T0'
            rb = make_request(b, 22, 'bob')
            rb['name'] = 'T1'
            n = solo_steps(cfg, ra, 'line')
            for k in range(1, n + 1):
                yield {'world': 'threads', 'seed': base_seed, 'config': cfg, 'requests': [ra, rb], 'granularity': 'line',
                       'order': ['T0', 'T1'], 'preempts': [[k, 'T1']], 'mode': 'depth1-cold', 'cold': True}

    def marathon_plans(self, tier, base_seed):
        """Long concurrent phases: two threads each serve hundreds of requests with DISTINCT branch-route paths, so
        that whatever per-process table the framework keeps about paths is filled, overflows and is recycled WHILE
        requests are in flight.  Expected responses are predicted, not measured (a warm-up would pre-fill such tables)."""
        rng = Streams(base_seed)['marathon']
        cfg = {'tok': True, 'eptok': False, 'rendermw': False, 'echo_errors': False, 'slash': 'redirect'}
        for k in range(48 if tier == 'quick' else 240):
            nthreads = rng.choice([3, 4, 4])
            n = rng.choice([180, 220, 260] if tier == 'quick' else [250, 350, 450])
            tag = 'm%d_%d' % (base_seed % 100000, k)
            names = ['T%d' % t for t in range(nthreads)]
            seqs = {}
            for t in names:
                seqs[t] = [{'x': '%s%s%d' % (tag, t, i), 'canon': rng.random() < 0.9, 'id': (i % 89) + 10} for i in range(n)]
            per_request = solo_steps(cfg, dict(make_request('br', 11, 'calib'), name='T0'), 'line')
            total = nthreads * n * (per_request + 10)
            p = rng.choice([0.005, 0.01, 0.02])
            pre = []
            step = 0
            while step < total:
                step += max(1, int(rng.expovariate(p)))
                pre.append([step, rng.choice(names)])
            # besides the seeded switches: threads are parked inside a few functions of the framework (chosen per plan)
            # whenever they pass through them -- tables are filled and recycled in small functions
            fnames = solo_funcs(cfg, dict(make_request('br', 11, 'calib'), name='T0'))
            # (every function of the catalogue is the focus of some plan: plan k always parks threads in function k mod n)
            hot = [fnames[k % len(fnames)]] + rng.sample([f for f in fnames if f != fnames[k % len(fnames)]], min(len(fnames) - 1, 3))
            if (k // len(fnames)) % 2 == 0:
                # ... and in every other round it is the ONLY one: the planned bits then last for the whole phase instead of
                # being used up by the long functions during the first hundred requests
                hot = hot[:1]
            bits = [1 if rng.random() < 0.4 else 0 for _ in range(8000)]
            yield {'world': 'threads', 'seed': base_seed, 'config': cfg, 'marathon': seqs, 'granularity': 'line',
                   'order': names, 'preempts': pre, 'mode': 'marathon', 'requests': [], 'hot_funcs': hot, 'hot_bits': bits}

    def idrun_plans(self, tier, base_seed):
        """Long-lived server workers: a few threads serve thousands of requests each, taking turns in long stretches;
        every identifier handed out in the whole phase is collected (whatever is handed out in batches, per thread or
        per second shows only after a batch has been used up)."""
        rng = Streams(base_seed)['idrun']
        cfg = {'tok': False, 'eptok': False, 'rendermw': False, 'echo_errors': False, 'slash': 'redirect'}
        per_request = solo_steps(cfg, dict(make_request('doc', 11, 'calib'), name='T0'), 'line')
        for k in range(1 if tier == 'quick' else 6):
            nthreads = 2 if k == 0 else rng.choice([2, 3])
            names = ['T%d' % t for t in range(nthreads)]
            counts = dict((t, (4400 if k == 0 else rng.choice([1100, 2300, 4400, 8500]))) for t in names)
            total = sum(counts.values()) * (per_request + 6)
            # every thread gets going early (one request each), afterwards they take turns in long stretches
            pre = [[(per_request + 6) * (i + 1), names[(i + 1) % nthreads]] for i in range(nthreads)]
            step = pre[-1][0]
            while step < total:
                step += rng.randint(50, 900) * (per_request + 6)
                pre.append([step, rng.choice(names)])
            yield {'world': 'threads', 'seed': base_seed, 'config': cfg, 'idrun': counts, 'granularity': 'line',
                   'order': names, 'preempts': pre, 'mode': 'idrun', 'requests': []}

    def extra_plans(self, tier, base_seed):
        for p in self.idrun_plans(tier, base_seed):
            yield p
        for j, p in enumerate(self.depth1_plans(tier, base_seed)):
            p['clock_start'] = EPOCH + 100.0 * ((1 << 20) + j)
            yield p
        for p in self.marathon_plans(tier, base_seed):
            yield p

    def execute_marathon(self, plan):
        res = RunResult()
        app = app_for(plan['config'])
        got = {}

        def runner_for(name, seq):
            def run():
                out = []
                for r in seq:
                    path = '/br/%s%s?id=%d' % (r['x'], '/' if r['canon'] else '', r['id'])
                    env = make_environ('GET', path)
                    env['sim.ids'], env['sim.ds'], env['sim.req_objs'], env['sim.guids'] = [], [], [], []
                    ex = call_app(app, env, validate=False)
                    out.append((ex.code, ex.body.decode('utf8', 'replace'), ex.header('Location'),
                                type(ex.escaped).__name__ if ex.escaped is not None else None))
                got[name] = out
            return run
        tasks = dict((name, runner_for(name, seq)) for name, seq in plan['marathon'].items())
        sched = BatonScheduler(plan['order'], plan['preempts'], plan['granularity'], WATCH, max_steps=2000000, join_timeout=120.0,
                               hot_funcs=plan.get('hot_funcs'), hot_bits=plan.get('hot_bits'))
        sched.run(tasks)
        res.steps = sched.steps
        res.nontrivial = bool(sched.switches)
        res.fire('preempt', len(sched.switches))
        res.probe('marathon')
        res.extra['interleaving'] = hashlib.sha1(canon([(a, b, c, d) for (_, a, b, c, d) in sched.switches[:200]]).encode()).hexdigest()[:16]
        res.signature = 'marathon|%d|%s' % (len(sched.switches), res.extra['interleaving'])
        res.ev('marathon', sum(len(s) for s in plan['marathon'].values()), 'steps', sched.steps, 'switches', len(sched.switches))
        for name in sorted(plan['marathon']):
            if name in sched.errors:
                res.violate(('C12/deadlock' if type(sched.errors[name]).__name__ == 'SimDeadlock' else
                             'C12/thread-raised:%s' % type(sched.errors[name]).__name__), '%s: %r' % (name, sched.errors[name]))
                continue
            for r, g in zip(plan['marathon'][name], got.get(name, [])):
                if r['canon']:
                    exp = (200, 'br|%s|tok-%d|%d' % (r['x'], r['id'], r['id']), None, None)
                else:
                    exp = (302, None, 'http://sim.test/br/%s/?id=%d' % (r['x'], r['id']), None)
                cmp_g = (g[0], g[1] if exp[1] is not None else None, g[2], g[3])
                if cmp_g != exp:
                    res.violate('C12/marathon/differs-from-alone:%s' % ('escaped' if g[3] else 'response'),
                                '%s request /br/%s (id %d) in a long concurrent phase: got %r, served alone it is %r'
                                % (name, r['x'], r['id'], g, exp))
                    return res
        return res

    def execute_idrun(self, plan):
        res = RunResult()
        app = app_for(plan['config'])
        got = {}

        def runner_for(name, n):
            def run():
                out = []
                for i in range(n):
                    env = make_environ('GET', '/doc?id=%d' % (10 + i % 89))
                    env['sim.ids'], env['sim.ds'], env['sim.req_objs'], env['sim.guids'] = [], [], [], []
                    ex = call_app(app, env, validate=False)
                    out.append((ex.code, tuple(sorted(set(env['sim.ids']), key=repr)), tuple(sorted(set(env['sim.guids']), key=repr))))
                got[name] = out
            return run
        tasks = dict((name, runner_for(name, n)) for name, n in plan['idrun'].items())
        sched = BatonScheduler(plan['order'], plan['preempts'], plan['granularity'], WATCH, max_steps=20000000, join_timeout=300.0)
        sched.run(tasks)
        res.steps = sched.steps
        res.nontrivial = bool(sched.switches)
        res.fire('preempt', len(sched.switches))
        res.probe('long-lived-workers')
        res.signature = 'idrun|%s|%d' % (canon(plan['idrun']), len(sched.switches))
        res.ev('idrun', canon(plan['idrun']), 'steps', sched.steps, 'switches', len(sched.switches))
        seen_i, seen_g = {}, {}
        for name in sorted(plan['idrun']):
            if name in sched.errors:
                res.violate(('C12/deadlock' if type(sched.errors[name]).__name__ == 'SimDeadlock' else
                             'C12/thread-raised:%s' % type(sched.errors[name]).__name__), '%s: %r' % (name, sched.errors[name]))
                continue
            for j, (code, ids, guids) in enumerate(got.get(name, [])):
                if code != 200 or len(ids) != 1 or len(guids) != 1 or ids[0] is None or guids[0] is None:
                    res.violate('C12/idrun/request-without-one-id', '%s request #%d: status %s ids %r guids %r' % (name, j, code, ids, guids))
                    return res
                for seen, v, what in ((seen_i, ids[0], 'id'), (seen_g, guids[0], 'guid')):
                    if v in seen:
                        res.violate('C12/request-%s-duplicate' % what, 'request %s %r was assigned to request #%d of %s and to request #%d of %s (long-lived workers: %s)'
                                    % (what, v, seen[v][1], seen[v][0], j, name, canon(plan['idrun'])))
                        return res
                    seen[v] = (name, j)
        return res

    # ---- execution ---------------------------------------------------------
    def execute(self, plan):
        if plan.get('marathon'):
            return self.execute_marathon(plan)
        if plan.get('idrun'):
            return self.execute_idrun(plan)
        # every clock read in the process is the simulated clock while the run lasts
        import time as _time
        real_time = _time.time
        # simulated time does not start over with every run of this process: whatever the tree under test keeps per
        # process about "the current second" has never seen this run's time before
        clock = SimClock(start=plan.get('clock_start', EPOCH))
        _time.time = clock.read
        try:
            return self._execute(plan, clock)
        finally:
            _time.time = real_time

    def _execute(self, plan, clock):
        res = RunResult()
        app = app_for(plan['config'])
        reqs = plan['requests']
        cold = bool(plan.get('cold'))
        names = [r['name'] for r in reqs]
        order = [n for n in plan['order'] if n in names] + [n for n in names if n not in plan['order']]
        # sequential pass: warms caches, and IS the oracle ("served alone")
        expected = {}
        all_ids = []
        all_guids = []
        for r in reqs:
            w0 = do_request(app, r)
            all_ids.extend(w0['ids'])          # identifiers are unique within the PROCESS: every request counts
            all_guids.extend(w0['guids'])
            s = do_request(app, r)
            expected[r['name']] = s
            all_ids.extend(s['ids'])
            all_guids.extend(s['guids'])
            if not s['one_dispatch_state'] or not s['one_request_obj']:
                res.violate('C12/sequential/dispatch-state-not-shared-within-request',
                            '%s: layers of one request saw different request/dispatch-state objects' % r['kind'])
        # the request that will start first was also the one served LAST before the concurrent phase (a client polling
        # one URL): whatever the framework remembers about "the previous request" is about this very request
        first = [r for r in reqs if r['name'] == order[0]]
        if first and not cold:
            s = do_request(app, first[0])
            all_ids.extend(s['ids'])
            all_guids.extend(s['guids'])
        got = {}
        tasks = {}
        for r in reqs:
            def task(r=r):
                got[r['name']] = do_request(app, r)
            tasks[r['name']] = task
        if cold:
            app = threads_app.build(plan['config'])      # nobody has called it yet
            res.probe('cold-application')
        sched = BatonScheduler(order, plan['preempts'], plan['granularity'], WATCH, ticks=plan.get('ticks'), clock=clock,
                               hot_funcs=plan.get('hot_funcs'), hot_bits=plan.get('hot_bits'))
        if plan.get('hot_funcs'):
            res.probe('function-focused-preemption')
        sched.run(tasks)
        if plan.get('ticks'):
            res.fire('clock_tick_during_requests', len(plan['ticks']))
        res.sim_time = clock.covered
        res.steps = sched.steps
        inter = hashlib.sha1(canon([(a, b, c, d) for (_, a, b, c, d) in sched.switches]).encode()).hexdigest()[:16]
        res.extra['interleaving'] = inter
        res.nontrivial = bool(sched.switches)
        res.signature = canon([sorted(r['kind'] for r in reqs), plan['granularity'], inter])
        res.fire('preempt', len(sched.switches))
        res.probe('gran-' + plan['granularity'])
        res.probe('threads-%d' % len(reqs))
        for sw in sched.switches:
            res.probe('switch-in-sinter' if sw[3] in ('next', 'process_request') else 'switch-in-clastic')
        res.ev('plan', plan.get('mode'), [r['kind'] for r in reqs], plan.get('hot_funcs'), 'cold' if cold else 'warm')
        res.ev('run', plan['granularity'], 'threads', len(reqs), 'steps', sched.steps,
               'switches', len(sched.switches), 'inter', inter, 'first', [list(x) for x in sched.switches[:3]], 'finish', canon(sched.finish_step), 'hot_i', sched.hot_i)
        for name in names:
            if name in sched.errors:
                res.violate(('C12/deadlock' if type(sched.errors[name]).__name__ == 'SimDeadlock' else 'C12/thread-raised:%s' % type(sched.errors[name]).__name__),
                            '%s: %r escaped the harness task' % (name, sched.errors[name]))
                continue
            g, e = got.get(name), expected[name]
            r = [x for x in reqs if x['name'] == name][0]
            all_ids.extend(g['ids'])
            all_guids.extend(g['guids'])
            res.ev(name, r['kind'], r['id'], 'code', g['code'], 'escaped', g['escaped'])
            for what, s in (('alone', e), ('concurrently', g)):
                p = predict(plan['config'], r)
                if p is None or s['escaped']:
                    continue
                res.probe('predicted-response-compared')
                stamp = s['headers'].get('x-sim-tok')
                if (s['code'] != p[0] or (p[1] is not None and s['body'] != p[1]) or (p[2] is not None and s['headers'].get('allow') != p[2])
                        or (p[3] is not None and s['headers'].get('location') != p[3])
                        or (stamp is not None and stamp != 'tok-%d' % r['id'])
                        or (len(p) > 4 and any(s['headers'].get(hk) != hv for hk, hv in p[4].items() if not hk.startswith('body_')))
                        or (len(p) > 4 and 'body_has' in p[4] and p[4]['body_has'] not in s['body'])
                        or (len(p) > 4 and 'body_lacks' in p[4] and p[4]['body_lacks'] in s['body'])):
                    res.violate('C12/%s/differs-from-source-prediction:%s' % (r['kind'], what),
                                '%s (%s %s) served %s: status %s body %r Allow %r Location %r; the application source says %r\n history: %s'
                                % (name, r['method'], r['target'], what, s['code'], s['body'][:80], s['headers'].get('allow'), s['headers'].get('location'), p,
                                   [(x['name'], x['method'], x['target']) for x in reqs]))
                    break
            if comparable(g) != comparable(e):
                diff = [k for k in comparable(e) if g.get(k) != e.get(k)]
                res.violate('C12/%s/differs-from-alone:%s' % (r['kind'], ','.join(sorted(diff))),
                            '%s (%s %s) served concurrently differs from the same request served alone\n'
                            ' alone:      %s\n concurrent: %s\n switches: %s'
                            % (name, r['method'], r['target'], canon(comparable(e)), canon(comparable(g)),
                               sched.switches[:12]))
        ids = [i for i in all_ids if i is not None]
        if len(ids) != len(all_ids):
            res.violate('C12/request-id-missing', 'a request had no request_id: %r' % (all_ids,))
        # the other identifier the framework assigns: the guid derived from the id
        guids = [x for x in all_guids if x is not None]
        if len(guids) != len(all_guids):
            res.violate('C12/request-guid-missing', 'a request had no request_guid: %r' % (all_guids,))
        elif len(set(guids)) != len(guids):
            res.violate('C12/request-guid-duplicate', 'request guids not unique within the process: %r' % (sorted(x for x in set(guids) if guids.count(x) > 1),))
        if len(set(ids)) != len(ids):
            dup = sorted(set(i for i in ids if ids.count(i) > 1))
            res.violate('C12/request-id-duplicate', 'request ids not unique within the process: %r (dups %r)'
                        % (ids, dup))
        return res

    def simplify(self, plan):
        # fewer middlewares / simpler config
        for k in ('rendermw', 'eptok', 'echo_errors', 'tok'):
            if plan['config'].get(k):
                c = dict(plan)
                c['config'] = dict(plan['config'])
                c['config'][k] = False
                yield c
        if plan['granularity'] == 'ins':
            c = dict(plan)
            c['granularity'] = 'line'
            yield c


CHECK = C12()
