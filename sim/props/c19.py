"""C19 -- stats count every request once and keep bounded samples (stats world).

Two kinds of plans:
  kind 'history':   {config:{table:[[pattern, methods, outcome]...]}, ops:[req/read/reset/clock/resize]}
  kind 'reservoir': {cap, ops:[{'add':[draw,...]}, {'resize':n}, {'iter':1}]}
The randomness seam (clastic.middleware.stats.random) returns the planned draws;
the clock seams (time, datetime) read the simulated clock.
"""
import json
import os

import clastic.middleware.stats as cstats
from clastic import Application, Response, Route, redirect
from clastic.errors import NotFound, Forbidden, Conflict

from sim.core.base import Check, RunResult, Streams, InvalidPlan, canon
from sim.core.gateway import make_environ, call_app
from sim.core.seams import Seams, SimClock, TimeProxy, make_datetime_proxy

PATTERNS = ['/a', '/<x>', '/b/', '/a/<y>', '/<p+>', '/c/<n:int>']
PATHS = ['/a', '/b', '/b/', '/a/z', '/q', '/q/r/s', '/', '/c/7', '/c/x', '/a/', '//a',
         '/m1/a', '/m2/a', '/m2/a', '/m1/q', '/m2/q', '/m1/b/', '/m2/b/', '/m2/a/z', '/m1/c/7', '/m2/c/7', '/m2', '/m1/']
OUTCOMES = {'ok': '200', 'red': '302', 'r404': '404', 'x409': '409', 'nb403': '403', 'nbret404': '404',
            'boom': "'ValueError'", 'boom2': "'KeyError'", 'ise': '500', 'x423': '423', 'r451': '451', 'x599': '599',
            # HTTPExceptions of the underlying library (werkzeug.exceptions): they have a code, too
            'wz410': '410', 'wzkey': '400', 'wzabort': '418',
            # responses that carry no Content-Type header at all
            'nocontent': '204', 'notmod': '304',
            # exceptions that are NOT HTTPExceptions but happen to carry a code attribute (expat, subprocess, application errors)
            'coded': "'CodedError'", 'expat': "'ExpatError'"}
NONBREAKING = ('nb403', 'nbret404')


class CodedError(Exception):
    code = 'E42'


def make_ep(out):
    if out == 'var':
        def var_ep(request):
            return make_ep(request.args.get('o', 'ok'))()
        return var_ep

    def ep():
        if out == 'ok':
            return Response('ok')
        if out == 'red':
            return redirect('/elsewhere')
        if out == 'r404':
            return NotFound()
        if out == 'x409':
            raise Conflict()
        if out == 'nb403':
            raise Forbidden(is_breaking=False)
        if out == 'nbret404':
            return NotFound(is_breaking=False)
        if out == 'x423':
            from clastic.errors import BadRequest
            raise BadRequest(code=423)              # a stock class with a per-instance status code
        if out == 'r451':
            from clastic.errors import Forbidden as _F
            return _F(code=451)
        if out == 'x599':
            from clastic.errors import HTTPException
            raise HTTPException(code=599)
        if out in ('nocontent', 'notmod'):
            resp = Response(b'', status={'nocontent': 204, 'notmod': 304}[out])
            resp.headers.pop('Content-Type', None)
            return resp
        if out == 'coded':
            raise CodedError('application error E42')
        if out == 'expat':
            import xml.parsers.expat
            xml.parsers.expat.ParserCreate().Parse('<a><b></a>', True)
        if out == 'wz410':
            from werkzeug.exceptions import Gone
            raise Gone()
        if out == 'wzkey':
            from werkzeug.datastructures import MultiDict
            return Response(MultiDict()['q'])       # BadRequestKeyError, as request.args['q'] raises it
        if out == 'wzabort':
            from werkzeug.exceptions import abort
            abort(418)
        if out == 'boom2':
            raise KeyError('k')
        if out == 'ise':
            from clastic.errors import InternalServerError
            raise InternalServerError()
        raise ValueError('x')
    return ep


def segs(path):
    return [x for x in path.split('/') if x]


def match(pattern, path):
    s = segs(path)
    for mp in ('/m1', '/m2'):
        if pattern.startswith(mp + '/') or pattern == mp:
            # a route of the application that is mounted under this prefix
            return bool(s) and s[0] == mp[1:] and path.startswith(mp) and match(pattern[len(mp):] or '/', path[len(mp):] or '/')
    if pattern == '/a':
        return s == ['a']
    if pattern == '/<x>':
        return len(s) == 1
    if pattern == '/b/':
        return s == ['b']
    if pattern == '/a/<y>':
        return len(s) == 2 and s[0] == 'a'
    if pattern == '/<p+>':
        return len(s) >= 1
    if pattern == '/c/<n:int>':
        return len(s) == 2 and s[0] == 'c' and s[1].lstrip('+-').isdigit()
    raise InvalidPlan('unknown pattern %r' % pattern)


def admits(methods, method):
    if not methods:
        return True
    ms = set(m.upper() for m in methods)
    if 'GET' in ms:
        ms.add('HEAD')
    return method.upper() in ms


def simulate(table, path, method, var='ok'):
    """Hits [(pattern, status key)] that one request produces, per the property."""
    hits = []
    nb = None
    allowed = False
    for pattern, methods, out in table:
        if not match(pattern, path):
            continue
        if not admits(methods, method):
            allowed = True
            continue
        if pattern.endswith('/') and not path.endswith('/'):
            return hits          # slash redirect: no route chain ran for it
        if out == 'var':
            out = var
        hits.append((pattern, OUTCOMES[out]))
        if out in NONBREAKING:
            nb = OUTCOMES[out]
            continue
        return hits
    hits.append(('/<_ignored*>', nb or ('405' if allowed else '404')))
    return hits


class DrawProxy(object):
    """random seam: returns the planned draws, then cycles a fixed tail."""

    def __init__(self, draws=()):
        self.draws = list(draws)
        self.used = 0

    def random(self):
        self.used += 1
        if self.draws:
            return self.draws.pop(0)
        return (0.61803398875 * self.used) % 1.0

    def __getattr__(self, k):
        # every other way of drawing (sample, choice, randint, shuffle, ...) is derived from the planned draws, too:
        # a random.Random whose one source of randomness is self.random()
        import random

        seam = self

        class Derived(random.Random):
            def random(self):
                return seam.random()

            def getrandbits(self, k):
                return int(seam.random() * (1 << k)) if k <= 52 else (int(seam.random() * (1 << 52)) << (k - 52))

            def seed(self, *a, **kw):
                pass
        d = self.__dict__.get('_derived')
        if d is None:
            d = self.__dict__['_derived'] = Derived()
        return getattr(d, k)


CONC_WATCH = (os.path.join(os.path.abspath(os.environ.get('VERIF_REPO', '/repo')), 'clastic') + os.sep, '<sinter')


class C19(Check):
    id = 'C19'
    world = 'stats'
    level = 'exploration'
    design_ref = 'DESIGN.md 3.12'
    runs = {'quick': 6000, 'thorough': 150000}
    shrink_lists = (('ops',), ('config', 'table'))
    rule = ('(i) seeded histories over generated routing tables (every outcome kind, overlapping patterns, '
            'non-breaking fallthrough, 404/405 on the catch-all route) of requests, report reads, resets, clock '
            'advances/jumps inside a request and reservoir resizes, compared with a model counter after every read; '
            '(ii) reservoir histories add/resize/iterate with capacities 1..64 driven by a randomness seam with '
            'adversarial draws (0.0, 1-eps, index-bucket boundaries). Non-trivial: a history with a failing/'
            'fallthrough request or a reservoir driven past capacity; distinct = op-level cases.')
    assumptions = ('report keyed by pattern: generated tables never repeat a pattern (DESIGN O9)',
                   'endpoints returning a non-Response are not generated (counting key not stated by the property)',
                   'durations/last_hit are not judged: the property speaks of counts and samples')
    components = {'real': ['clastic.middleware.stats (StatsMiddleware, Reservoir, stats app)', 'clastic dispatch',
                           'render_basic', 'boltons.statsutils'],
                  'stub': ['clock (time, datetime seams)', 'random.random (planned draws)', 'WSGI server/client']}
    level_text = ('Seeded search over request/read/reset/resize histories against a model counter and over '
                  'reservoir operation histories under adversarial random draws; unbounded history space, sampled.')
    level_note = 'Trusted: the sequential dispatch model used to predict which routes a request reaches.'
    required_probes = ('overlapping-requests-counted', 'query-string-of-raw-bytes', 'iteration-in-progress-across-a-resize', 'reader-changed-its-copy', 'one-application-mounted-under-two-prefixes', 'reservoir-with-repeated-values-shrunk', 'two-stats-applications', 'request-inside-except-block', 'reservoir-overflow', 'reservoir-grow-after-overflow', 'fallthrough-counted', 'reset-read',
                       'negative-duration', 'null-route-405')

    # ---- generation --------------------------------------------------------
    def generate(self, seed, tier):
        S = Streams(seed)
        if S['config'].random() < 0.35:
            return self.gen_reservoir(seed, S)
        rng, erng = S['ops'], S['env']
        c = S['config']
        pats = list(PATTERNS)
        c.shuffle(pats)
        table = [[p, c.choice([None, None, ['GET'], ['POST'], ['get', 'put']]), c.choice(sorted(OUTCOMES) + ['var'] * 6)]
                 for p in pats[:c.randint(1, 5)]]
        if c.random() < 0.3:
            mp = [q for q in PATTERNS if q not in ('/<p+>',)]
            c.shuffle(mp)
            sub = [[q, c.choice([None, None, ['GET']]), c.choice(sorted(OUTCOMES) + ['var'] * 4)] for q in mp[:c.randint(1, 2)]]
            table = table + [['/m1' + q, mm, o] for q, mm, o in sub] + [['/m2' + q, mm, o] for q, mm, o in sub]
        second = None
        if c.random() < 0.35:
            # a second application with its own StatsMiddleware lives in the same process
            pats2 = list(PATTERNS)
            c.shuffle(pats2)
            second = [[p, c.choice([None, ['GET'], ['POST']]), c.choice(sorted(OUTCOMES) + ['var'] * 4)] for p in pats2[:c.randint(1, 3)]]
        ops = []
        for _ in range(rng.randint(5, 60)):
            r = rng.random()
            if r < 0.66:
                op = {'op': 'req', 'app': (1 if second and rng.random() < 0.4 else 0),
                      # served while the caller is handling an unrelated exception (e.g. a gateway retrying in an except block)
                      'in_except': rng.random() < 0.12, 'path': rng.choice(PATHS), 'method': rng.choice(['GET', 'GET', 'POST', 'HEAD', 'put', 'DELETE']),
                      'o': rng.choice(sorted(OUTCOMES)), 'jitter': [], 'raw_query': rng.random() < 0.15}
                if erng.random() < 0.2:
                    op['jitter'] = [erng.choice([0.0, 0.001, 1.5, -0.5, -30.0, 3600.0]) for _ in range(erng.randint(1, 6))]
                ops.append(op)
            elif r < 0.7:
                # two or three clients at once (a threaded server): every one of them is counted.  The same requests are
                # served one by one first: the counters they go to exist by then (what the first hit of a counter does when
                # another first hit overlaps is not part of this check), pre-emption at line boundaries only
                sch = S['sched']
                n = sch.choice([2, 2, 3])
                names = ['T%d' % i for i in range(n)]
                order = list(names)
                sch.shuffle(order)
                ops.append({'op': 'conc', 'app': (1 if second and rng.random() < 0.4 else 0), 'order': order,
                            'reqs': [{'path': rng.choice(PATHS), 'method': rng.choice(['GET', 'GET', 'POST']), 'o': rng.choice(sorted(OUTCOMES))} for _ in range(n)],
                            'preempts': sorted([sch.randint(1, 400), sch.choice(['demote'] + names)] for _ in range(sch.randint(1, 8)))})
            elif r < 0.82:
                ops.append({'op': 'read', 'app': (1 if second and rng.random() < 0.4 else 0)})
            elif r < 0.9:
                ops.append({'op': 'reset', 'app': (1 if second and rng.random() < 0.4 else 0)})
            elif r < 0.95:
                ops.append({'op': 'clock', 'dt': erng.choice([0.001, 1, 60, 86400, -5])})
            else:
                ops.append({'op': 'resize', 'n': erng.choice([1, 2, 3, 8, 16384])})
        ops.append({'op': 'read', 'app': 0})
        if second:
            ops.append({'op': 'read', 'app': 1})
        return {'world': 'stats', 'kind': 'history', 'seed': seed, 'config': {'table': table, 'second': second,
                           # some routes (and the application mounted twice) bring a StatsMiddleware of their own: a unique type, kept
                           # once at its outermost position -- the host's instance counts them
                           'own_stats': S['env'].random() < 0.4}, 'ops': ops}

    def gen_reservoir(self, seed, S):
        rng, erng = S['ops'], S['env']
        cap = rng.choice([1, 1, 2, 3, 4, 7, 8, 16, 33, 64])
        ops = []
        n_added = 0
        for _ in range(rng.randint(3, 25)):
            r = rng.random()
            if r < 0.6:
                k = rng.choice([1, 1, 2, cap, cap + 1, 3 * cap, rng.randint(1, 50 * cap) if cap <= 8 else 5 * cap])
                draws = []
                for _i in range(k):
                    n_added += 1
                    mode = erng.random()
                    if mode < 0.5:
                        draws.append(erng.random())
                    elif mode < 0.6:
                        draws.append(0.0)
                    elif mode < 0.7:
                        draws.append(1.0 - 2 ** -53)
                    else:
                        # boundary of an index bucket: idx = int(x * (total+1))
                        j = erng.randint(0, n_added + 1)
                        draws.append(min(1.0 - 2 ** -53, max(0.0, j / float(n_added + 1) + erng.choice([-1e-12, 0.0, 1e-12]))))
                ops.append({'add': draws})
            elif r < 0.8:
                ops.append({'resize': rng.choice([1, 2, cap, cap + 1, 2 * cap, max(1, cap // 2), 64, 3])})
            elif r < 0.84:
                # a reader is part-way through the values when the store is resized, and then reads on
                ops.append({'iter_resize': rng.choice([1, 2, max(1, cap // 2), cap, 2 * cap]), 'first': rng.choice([0, 1, 2, 5])})
            elif r < 0.9:
                # a reader takes the values as a list and works on ITS list (sorts it, trims it, pads it)
                ops.append({'tolist': rng.choice(['append', 'clear', 'sort-reverse', 'extend', 'pop'])})
            else:
                ops.append({'iter': 1})
        # what is added: all different (sequence numbers), or measurements that REPEAT (durations rounded to a few values)
        return {'world': 'stats', 'kind': 'reservoir', 'seed': seed, 'cap': cap, 'ops': ops,
                'values': rng.choice(['unique', 'unique', 'few', 'constant'])}

    # ---- execution ---------------------------------------------------------
    def execute(self, plan):
        if plan.get('kind') == 'reservoir':
            return self.exec_reservoir(plan)
        return self.exec_history(plan)

    def exec_reservoir(self, plan):
        res = RunResult()
        K = 'C19/reservoir/'
        with Seams() as sm:
            draws = DrawProxy()
            sm.patch(cstats, 'random', draws)
            cap = plan['cap']
            try:
                r = cstats.Reservoir(cap=cap)
            except Exception as e:
                res.violate(K + 'raises:%s@init' % type(e).__name__, 'Reservoir(cap=%r): %r' % (cap, e))
                return res
            added = []
            vmode = plan.get('values', 'unique')
            n = 0
            grown_after_overflow = False
            truncated = False
            last = 'init'
            for step, op in enumerate(plan['ops']):
                try:
                    if 'add' in op:
                        draws.draws = list(op['add'])
                        for _ in op['add']:
                            n += 1
                            v = n if vmode == 'unique' else 0.25 if vmode == 'constant' else [0.001, 0.002, 0.002, 0.004, 0.25][n % 5]
                            added.append(v)
                            r.add(v)
                        last = 'add-after-grow' if grown_after_overflow else 'add'
                    elif 'iter_resize' in op:
                        it = iter(r)
                        for _ in range(op['first']):
                            next(it, None)
                        if op['iter_resize'] > cap and n > cap:
                            grown_after_overflow = True
                        before = list(r)
                        cap = op['iter_resize']
                        r.resize(cap)
                        if cap < len(before):
                            truncated = True
                        list(it)        # the reader goes on: whatever it still gets, it must not raise
                        last = 'iter-across-resize'
                        res.probe('iteration-in-progress-across-a-resize')
                    elif 'tolist' in op:
                        lst = r.to_list()     # (what the reader does to ITS list is judged by the invariants below)
                        how = op['tolist']
                        if how == 'append':
                            lst.append('never-added')
                        elif how == 'clear':
                            del lst[:]
                        elif how == 'sort-reverse':
                            lst.sort(key=repr, reverse=True)
                        elif how == 'extend':
                            lst.extend(['pad'] * 20)
                        elif how == 'pop' and lst:
                            lst.pop()
                        last = 'tolist'
                        res.probe('reader-changed-its-copy')
                    elif 'resize' in op:
                        if op['resize'] > cap and n > cap:
                            grown_after_overflow = True
                            res.probe('reservoir-grow-after-overflow')
                        before = list(r)
                        cap = op['resize']
                        r.resize(cap)
                        last = 'resize'
                        if cap < len(before):
                            truncated = True
                            res.probe('reservoir-shrunk-below-contents')
                            if len(set(before)) < len(before):
                                res.probe('reservoir-with-repeated-values-shrunk')
                    else:
                        list(r)
                        last = 'iter'
                    contents = list(r)
                except Exception as e:
                    res.violate(K + 'raises:%s@%s' % (type(e).__name__, 'add-after-grow' if grown_after_overflow and 'add' in op else
                                                      ('add' if 'add' in op else 'resize' if 'resize' in op else 'tolist' if 'tolist' in op else 'iter-across-resize' if 'iter_resize' in op else 'iter')),
                                'step %d %s: %r (cap %r, %d added)' % (step, canon(op)[:80], e, cap, n), step)
                    return res
                if n > cap:
                    res.probe('reservoir-overflow')
                    res.nontrivial = True
                res.ev(step, 'add' if 'add' in op else canon(op), 'n', n, 'cap', cap, 'len', len(contents))
                res.sigs.add('res|%s|%s|%s' % (last, 'over' if n > cap else 'under', 'full' if len(contents) == cap else 'part'))
                if len(contents) > cap:
                    res.violate(K + 'over-capacity@' + last, 'step %d: holds %d values with capacity %d' % (step, len(contents), cap), step)
                    return res
                if r.total_count != n:
                    res.violate(K + 'total-count@' + last, 'step %d: total_count %r after %d adds' % (step, r.total_count, n), step)
                    return res
                pool = list(added)
                foreign = []
                for v in contents:
                    if v in pool:
                        pool.remove(v)      # as a multiset: a value is held at most as often as it was added
                    else:
                        foreign.append(v)
                if foreign:
                    res.violate(K + 'foreign-value@' + last, 'step %d: contains %r never added (or more often than added)' % (step, foreign[:5]), step)
                    return res
                if n <= cap and not grown_after_overflow and not truncated and sorted(contents) != sorted(added):
                    # below capacity (and never truncated) nothing may be lost
                    res.violate(K + 'lost-below-capacity', 'step %d: %d of %d values kept below capacity %d' % (step, len(contents), n, cap), step)
                    return res
            res.fire('rand_extreme', sum(1 for op in plan['ops'] if 'add' in op for d in op['add'] if d in (0.0, 1.0 - 2 ** -53)))
            res.steps = len(plan['ops'])
        return res

    def exec_history(self, plan):
        res = RunResult()
        table = plan['config']['table']
        if len(set(t[0] for t in table)) != len(table):
            raise InvalidPlan('duplicate pattern')
        clock = SimClock()
        dtmod, _ = make_datetime_proxy(clock)
        with Seams() as sm:
            sm.patch(cstats, 'time', TimeProxy(clock))
            sm.patch(cstats, 'datetime', dtmod)
            sm.patch(cstats, 'random', DrawProxy())
            tables = [table] + ([plan['config']['second']] if plan['config'].get('second') else [])
            apps, mws, models = [], [], []
            for tb in tables:
                m = cstats.StatsMiddleware()
                own = bool(plan['config'].get('own_stats'))

                def own_mws(k):
                    return [cstats.StatsMiddleware()] if own and k % 2 == 0 else []
                if own:
                    res.probe('route-with-a-stats-middleware-of-its-own')
                rts = [('/_st/', cstats.create_stats_app())] + [Route(p, make_ep(o), methods=mm, middlewares=own_mws(k)) for k, (p, mm, o) in enumerate(tb) if not p.startswith(('/m1', '/m2'))]
                mounted = [(p, mm, o) for p, mm, o in tb if p.startswith('/m1')]
                if mounted:
                    # ONE application, mounted under two prefixes of this one
                    shared_app = Application([Route(p[3:] or '/', make_ep(o), methods=mm) for p, mm, o in mounted], middlewares=own_mws(0))
                    rts += [('/m1', shared_app), ('/m2', shared_app)]
                    res.probe('one-application-mounted-under-two-prefixes')
                apps.append(Application(rts, middlewares=[m]))
                mws.append(m)
                models.append({})
            if len(apps) > 1:
                res.probe('two-stats-applications')

            def bump(ai, p, k):
                models[ai].setdefault(p, {})
                models[ai][p][k] = models[ai][p].get(k, 0) + 1

            def report(ex, what, step):
                if ex.escaped is not None or ex.code != 200:
                    res.violate('C19/report/%s-failed:%s' % (what, ex.code or type(ex.escaped).__name__),
                                'step %d: stats %s answered %s %r\n%s' % (step, what, ex.status, ex.escaped, ex.body[:400].decode('utf8', 'replace')), step)
                    return None
                d = json.loads(ex.body)
                return dict((p, dict((k, v['count']) for k, v in st.items())) for p, st in d['route_stats'].items())

            for step, op in enumerate(plan['ops']):
                kind = op['op']
                ai = op.get('app', 0) % len(apps)
                app, mw, model, table = apps[ai], mws[ai], models[ai], tables[ai]
                if kind == 'req':
                    hits = simulate(table, op['path'], op['method'], op.get('o', 'ok'))
                    clock.jitter = list(op.get('jitter') or [])
                    if any(j < 0 for j in clock.jitter):
                        res.fire('clock_jump_back_within_request')
                        res.probe('negative-duration')
                    env = make_environ(op['method'].upper(), op['path'] + '?o=' + op.get('o', 'ok'))
                    if op.get('raw_query'):
                        # a client that sends its query string as raw (non-UTF-8) bytes
                        env['QUERY_STRING'] = env['QUERY_STRING'] + '&name=caf\xe9&x=\xff'
                        res.probe('query-string-of-raw-bytes')
                    if op.get('in_except'):
                        res.probe('request-inside-except-block')
                        try:
                            raise LookupError('the caller is handling something else')
                        except LookupError:
                            ex = call_app(app, env)
                    else:
                        ex = call_app(app, env)
                    clock.jitter = []
                    for p, k in hits:
                        bump(ai, p, k)
                    if len(hits) > 1:
                        res.probe('fallthrough-counted')
                        res.nontrivial = True
                    if hits and hits[-1] == ('/<_ignored*>', '405'):
                        res.probe('null-route-405')
                    if any(k not in ('200',) for _, k in hits):
                        res.nontrivial = True
                    res.sigs.add('req|%s|%s' % (op['method'], [k for _, k in hits]))
                    res.ev(step, 'req', op['method'], op['path'], '->', ex.code, 'hits', canon(hits))
                    if ex.escaped is not None:
                        res.violate('C19/request-escaped:%s' % type(ex.escaped).__name__,
                                    'step %d: %r escaped' % (step, ex.escaped), step)
                elif kind == 'conc':
                    from sim.core.sched import BatonScheduler
                    envs = []
                    for rq in op['reqs']:
                        call_app(app, make_environ(rq['method'].upper(), rq['path'] + '?o=' + rq['o']))       # one by one first
                        for p, k in simulate(table, rq['path'], rq['method'], rq['o']):
                            bump(ai, p, k)
                        envs.append(make_environ(rq['method'].upper(), rq['path'] + '?o=' + rq['o']))
                    got_c = {}
                    tasks = dict(('T%d' % i, (lambda i=i: got_c.__setitem__(i, call_app(app, envs[i])))) for i in range(len(envs)))
                    t0 = clock.now
                    sched = BatonScheduler(op['order'], op['preempts'], 'line', CONC_WATCH)
                    sched.run(tasks)
                    clock.now = t0
                    res.fire('preempt', len(sched.switches))
                    if sched.switches:
                        res.probe('overlapping-requests-counted')
                        res.nontrivial = True
                    res.ev(step, 'conc', len(envs), 'switches', len(sched.switches))
                    if sched.errors:
                        res.violate('C19/conc/thread-raised:%s' % type(list(sched.errors.values())[0]).__name__, 'step %d: %r' % (step, sched.errors), step)
                        break
                    for rq in op['reqs']:
                        for p, k in simulate(table, rq['path'], rq['method'], rq['o']):
                            bump(ai, p, k)
                elif kind in ('read', 'reset'):
                    if kind == 'read':
                        ex = call_app(app, make_environ('GET', '/_st/?format=json'))
                    else:
                        ex = call_app(app, make_environ('POST', '/_st/reset?format=json'))
                    got = report(ex, kind, step)
                    res.ev(step, kind, canon(got))
                    if got is not None and got != dict((p, c) for p, c in model.items() if c):
                        diff = sorted(set(list(got) + list(model)))
                        diff = [(p, got.get(p), model.get(p)) for p in diff if got.get(p) != model.get(p)]
                        kinds = sorted(set(self.diff_kind(g, m) for _, g, m in diff))
                        res.violate('C19/count-mismatch@%s:%s' % (kind, ','.join(kinds)),
                                    'step %d %s: report differs from the model counter\n (pattern, reported, expected): %s\n table: %s'
                                    % (step, kind, diff[:6], table), step)
                    if kind == 'read':
                        bump(ai, '/_st/', '200')
                    else:
                        model.clear()
                        bump(ai, '/_st/reset', '200')
                        res.probe('reset-read')
                elif kind == 'clock':
                    clock.advance(op['dt'])
                    res.ev(step, 'clock', op['dt'])
                elif kind == 'resize':
                    for rt, by_status in [x for m in mws for x in list(m.route_hits.items())]:
                        for status, rsv in list(by_status.items()):
                            rsv.resize(op['n'])
                    res.fire('reservoir_resize')
                    res.ev(step, 'resize', op['n'])
                if res.violations:
                    break
        res.steps = len(plan['ops'])
        res.sim_time = clock.covered
        return res

    @staticmethod
    def diff_kind(got, exp):
        got, exp = got or {}, exp or {}
        if sum(got.values()) != sum(exp.values()):
            return 'total-too-high' if sum(got.values()) > sum(exp.values()) else 'total-too-low'
        return 'wrong-status-key'

    def simplify(self, plan):
        if plan.get('kind') == 'reservoir':
            for i, op in enumerate(plan['ops']):
                if 'add' in op and len(op['add']) > 1:
                    c = dict(plan)
                    c['ops'] = list(plan['ops'])
                    c['ops'][i] = {'add': op['add'][:len(op['add']) // 2]}
                    yield c
            return
        for i, op in enumerate(plan['ops']):
            if op.get('jitter'):
                c = dict(plan)
                c['ops'] = [dict(o) for o in plan['ops']]
                c['ops'][i]['jitter'] = []
                yield c


CHECK = C19()
