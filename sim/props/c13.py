"""C13 -- an Application is a conforming WSGI application (gateway world).

plan = {config: {debug, outer_wrappers:[type], sub_wrappers:[type], route_wrappers:[type], types:{T:{unique}}},
        ops: [{route, method, headers, consume, abort_after, fw}]}
The simulator is the WSGI server: it decides HEAD / abort after k chunks / never
iterate / which wsgi.file_wrapper to offer, and always calls close().
"""
import os
import shutil
import tempfile

# tmpfs keeps 64-bit timestamps (a file can carry an mtime datetime cannot represent) and is fast
SCRATCH = '/dev/shm' if os.path.isdir('/dev/shm') and os.access('/dev/shm', os.W_OK) else None

import clastic.static as cstatic
import clastic.meta as cmeta
from clastic import Application, Response, Route, GET, Middleware, render_basic, redirect
from clastic.render import render_json
from clastic.application import RerouteWSGI
from clastic.static import StaticApplication
from clastic.meta import MetaApplication
from clastic.errors import Forbidden
from clastic.middleware import GzipMiddleware
from clastic.middleware.client_cache import HTTPCacheMiddleware

from sim.core.base import Check, RunResult, Streams, InvalidPlan, canon
from sim.core.gateway import make_environ, call_app
from sim.core.seams import Seams, SimClock
from sim.core.fsseam import FsSeam
from sim.core.hoststub import HostStub
from sim.core.sched import BatonScheduler
from sim.core import runner

WATCH = (os.path.join(runner.REPO, 'clastic') + os.sep, '<sinter')

ROUTES = ['ok', 'stream', 'ctx', 'static-small', 'static-big', 'static-empty', 'static-empty', 'static-missing', 'static-oddtime', 'static-oddtime', 'reroute-branch', 'reroute-branch-noslash', 'reroute-branch-dslash', 'reroute-app', 'reroute-app', 'branch', 'missing', 'm405', 'boom',
          'http403', 'meta', 'meta-json', 'gz', 'cache', 'reroute-raise', 'reroute-ep', 'reroute-fn-ep', 'reroute-deco-raise', 'sub-ok', 'empty', 'bytes-big',
          'static-noext-big', 'static-noext-big', 'static-noext-small', 'branch-ctl1', 'branch-ctl2', 'branch-ctl3', 'http520', 'http520', 'ctx-surrogate', 'ctx-surrogate', 'target-fails-late', 'target-fails-late',
          # the static application under a compressing middleware (clients that accept gzip, HEAD, aborted transfers)
          'static-gz-small', 'static-gz-big', 'static-gz-big',
          # file names that are awkward in response headers; an endpoint whose result never becomes a Response
          'static-unicode-name', 'static-unicode-name', 'static-newline-name', 'nonresp', 'nonresp']
PATH = {'ok': '/ok', 'stream': '/stream', 'ctx': '/ctx', 'static-small': '/s/a.txt', 'static-big': '/s/big.bin',
        'static-missing': '/s/nope', 'static-empty': '/s/empty.txt', 'static-oddtime': '/s/odd.txt', 'reroute-branch': '/rb/', 'reroute-branch-noslash': '/rb',
        'reroute-branch-dslash': '/rb//', 'reroute-app': '/r3/some/path', 'branch': '/b', 'missing': '/missing', 'm405': '/g', 'boom': '/boom',
        'http403': '/forbidden', 'meta': '/meta/', 'meta-json': '/meta/json/', 'gz': '/gz', 'cache': '/cache',
        'reroute-raise': '/rr', 'reroute-ep': '/r2', 'reroute-fn-ep': '/r4', 'reroute-deco-raise': '/r5',
        'http520': '/http520', 'ctx-surrogate': '/ctxs', 'target-fails-late': '/rfail', 'branch-ctl1': '/bx/q%01', 'branch-ctl2': '/bx/a%00b%1F', 'branch-ctl3': '/bx/%7F%0B%1B[31m',
        'static-noext-big': '/s/LICENSE', 'static-noext-small': '/s/README', 'sub-ok': '/in/x', 'empty': '/empty', 'bytes-big': '/big',
        'static-gz-small': '/sgz/a.txt', 'static-gz-big': '/sgz/big.bin',
        'static-unicode-name': '/s/%E6%97%A5%E6%9C%AC%E8%AA%9E.txt', 'static-newline-name': '/s/two%0Alines.txt', 'nonresp': '/nonresp'}
METHODS = ['GET', 'GET', 'HEAD', 'POST', 'OPTIONS']
HEADER_SETS = [{'If-Modified-Since': 'Fri, 01 Jan 2100 00:00:00 GMT'}, {'If-Modified-Since': 'Thu, 01 Jan 1970 00:00:10 GMT'},
               {}, {'Accept': 'text/html'}, {'Accept': 'application/json'}, {'Accept-Encoding': 'gzip'},
               {'Accept-Encoding': 'gzip', 'Accept': 'text/html'}, {'If-None-Match': '"x"'},
               {'Accept': '*/*', 'User-Agent': 'sim/1.0', 'X-Forwarded-For': '10.1.1.1'},
               # range requests: satisfiable, open-ended, beyond the end, several ranges, malformed, with If-Range
               {'Range': 'bytes=0-9'}, {'Range': 'bytes=100000000-'}, {'Range': 'bytes=16-'}, {'Range': 'bytes=-5'}, {'Range': 'bytes=5-1'},
               {'Range': 'bytes=0-0,2-3'}, {'Range': 'lines=1-2'}, {'Range': 'bytes=0-9', 'If-Range': '"nope"'}, {'Range': 'bytes=27-'}]


class SimFileWrapper(object):
    """A server-supplied wsgi.file_wrapper (PEP 3333): iterable, close() closes the file."""

    def __init__(self, filelike, blksize=8192):
        self.filelike = filelike
        self.blksize = blksize

    def __iter__(self):
        return self

    def __next__(self):
        data = self.filelike.read(self.blksize)
        if data:
            return data
        raise StopIteration

    def close(self):
        if hasattr(self.filelike, 'close'):
            self.filelike.close()


def wrapper_type(name, unique, base=None, beh='inplace'):
    """beh: 'inplace' (marks the environ it was given and passes it on) | 'copy' (passes a COPY of the environ inward, as
    wrappers that add keys for the inside only do) | 'sr' (decorates start_response: adds a header of its own) | 'copy+sr'"""
    def wsgi_wrapper(self, inner):
        def wrapped(environ, start_response):
            environ.setdefault('sim.wrappers', []).append(self.tag)
            chain = environ.setdefault('sim.chain', [])
            seen = environ.setdefault('sim.sr', [])
            env_in = environ
            if 'copy' in self.beh:
                env_in = dict(environ)
                env_in['sim.copied-by-' + self.tag] = True
            chain.append(env_in)
            sr = start_response
            if 'sr' in self.beh:
                def sr(status, headers, exc_info=None):
                    seen.append((self.tag, status, list(headers)))
                    headers = list(headers) + [(wrapper_header(self.tag), '1')]
                    return start_response(status, headers, exc_info) if exc_info else start_response(status, headers)
            return inner(env_in, sr)
        return wrapped
    def init(self, tag):
        self.tag = tag
        if 'falsy' in self.beh:
            # the wrapper is a callable OBJECT that keeps a log of what it wrapped -- empty, hence falsy, when the
            # application is constructed
            self.wsgi_wrapper = _LoggingWrapper(self, type(self).wsgi_wrapper)
    return type(str('W' + name), (base or Middleware,), {'unique': unique, 'wsgi_wrapper': wsgi_wrapper, 'beh': beh,
                                                         '__init__': init})


class _LoggingWrapper(object):
    def __init__(self, mw, func):
        self.mw, self.func, self.log = mw, func, []

    def __len__(self):
        return len(self.log)

    def __call__(self, inner):
        wrapped = self.func(self.mw, inner)
        self.log.append(wrapped)
        return wrapped


def wrapper_header(tag):
    return 'X-W-' + tag.replace(':', '-')


# deliberately the kind of headers a re-wrapping response object would "correct"
TARGET_HEADERS = [('X-Target', 'yes'), ('x-lower', '1'), ('Location', '/relative/path'), ('Content-Type', 'text/x-sim'),
                  ('Set-Cookie', 'a=1'), ('Set-Cookie', 'b=2')]


class Target(object):
    """The WSGI application a RerouteWSGI hands the request to."""

    def __init__(self):
        self.seen = []
        self.app_seen = []
        # a reroute target that is itself a clastic Application WITH a WSGI wrapper of its own
        self.inner_app = Application([('/<anything*>', lambda: Response('inner-application', mimetype='text/x-inner'))],
                                     middlewares=[TargetWrapperMW(self.app_seen)])

    def __call__(self, environ, start_response):
        self.seen.append(environ)
        start_response('201 Created', list(TARGET_HEADERS))
        if environ['REQUEST_METHOD'] == 'HEAD':
            return []
        return [b'from-', b'target']


class TargetWrapperMW(Middleware):
    """WSGI wrapper of the reroute TARGET application: marks the response and records the environ it was given."""

    def __init__(self, seen):
        self.seen = seen

    def wsgi_wrapper(self, inner):
        def wrapped(environ, start_response):
            self.seen.append(environ)

            def sr(status, headers, exc_info=None):
                return start_response(status, list(headers) + [('X-Target-Wrapper', 'yes')])
            return inner(environ, sr)
        return wrapped


class C13(Check):
    id = 'C13'
    world = 'gateway'
    level = 'exploration'
    design_ref = 'DESIGN.md 3.7'
    runs = {'quick': 1200, 'thorough': 15000}
    shrink_lists = (('ops',),)
    hashseeds = {'quick': ['1:OA'], 'thorough': ['1:OA', 2]}
    rule = ('one application exposing every response kind (plain, streamed, rendered context, static files small/big/missing, '
            'slash redirect, 404, 405, 500 default/debug, raised HTTPException, meta pages, gzip- and cache-processed, '
            'RerouteWSGI raised / as endpoint, embedded application) behind generated stacks of wsgi_wrapper middlewares at '
            'application / embedded / route level (unique types shared between levels) x method {GET, HEAD, POST, OPTIONS} x header '
            'sets x SERVER BEHAVIOUR {drain, abort after k chunks, never iterate} x wsgi.file_wrapper {absent, wsgiref, custom}; '
            'every exchange is judged by wsgiref.validate, a PEP 3333 monitor, an open/close ledger of files, wrapper-order '
            'constraints and reroute identity checks. Non-trivial: exchange with abort/no-iteration/HEAD/file wrapper or an error '
            'kind; distinct = (route kind, method, consumption, file wrapper, status).')
    assumptions = ('applications are built with >= 1 route and all routes in the constructor (DESIGN O4)',
                   'non-unique wrapper types are not repeated (their multiplicity is not stated by the property)',
                   'sibling embedded applications: only the stated partial order of wrappers is judged',
                   'host facts behind the meta pages are stubbed (canned values)')
    components = {'real': ['Application.__call__/_dispatch_wsgi/_safe_wrap_wsgi', 'RerouteWSGI', 'clastic.static file responses',
                           'werkzeug Response/FileWrapper', 'wsgiref.validate', 'MetaApplication', 'Gzip/HTTPCache middlewares',
                           'kernel filesystem (scratch tree)'],
                  'stub': ['the WSGI server (SimGateway: consumption policy, HEAD, file_wrapper)', 'reroute target', 'host facts (HostStub)']}
    level_text = ('Seeded search over server behaviours x response kinds x wrapper stacks with a protocol monitor; the '
                  'route-kind x method x consumption x file-wrapper grid is swept once per run for a sampled wrapper stack.')
    level_note = 'Trusted: wsgiref.validate as the reading of PEP 3333; the monitor in sim/core/gateway.py.'
    required_probes = ('head-for-a-file-under-a-compressing-middleware', 'reroute-target-fails-after-start-response', 'error-handler-switched-after-construction', 'environ-without-optional-keys', 'query-string-of-raw-bytes', 'range-request-on-static-file', 'wrapper-object-falsy-at-construction', 'filesystem-error-after-the-file-was-opened', 'big-file-without-extension-served', 'reroute-target-with-other-parameter-names', 'wrapper-passes-copy-of-environ', 'wrapper-decorates-start-response', 'empty-file-through-server-file-wrapper', 'reroute-to-wrapped-application', 'conditional-static-304', 'reroute-through-rewritten-path', 'first-requests-concurrent', 'file-released-after-abort', 'file-released-without-iteration', 'head-no-body', 'reroute-same-environ',
                       'custom-file-wrapper-used', 'debug-500', 'gzip-applied')

    def generate(self, seed, tier):
        S = Streams(seed)
        c, rng = S['config'], S['ops']
        names = ['A', 'B', 'C', 'D', 'E']
        types = dict((n, {'unique': c.random() < 0.75, 'beh': c.choice(['inplace', 'inplace', 'copy', 'sr', 'copy+sr', 'inplace+falsy', 'sr+falsy'])}) for n in names)
        for i, n in enumerate(names[1:], 1):
            if c.random() < 0.3:
                types[n]['base'] = names[c.randrange(i)]

        def pick(k, banned=()):
            out = []
            for n in c.sample(names, c.randint(0, k)):
                if n in banned:
                    continue
                out.append(n)
            return out
        outer = pick(3)
        nonuniq_used = set(n for n in outer if not types[n]['unique'])
        sub = pick(2, banned=nonuniq_used)
        nonuniq_used |= set(n for n in sub if not types[n]['unique'])
        route = pick(2, banned=nonuniq_used)
        nonuniq_used |= set(n for n in route if not types[n]['unique'])
        sib = pick(2, banned=nonuniq_used)       # a sibling embedded application with its own instances
        cfg = {'handler_switched': c.random() < 0.3, 'debug': c.random() < 0.4, 'slash': c.choice(['redirect', 'redirect', 'rewrite', 'strict']), 'types': types, 'outer_wrappers': outer, 'sub_wrappers': sub, 'route_wrappers': route,
               'sib_wrappers': sib}
        # the application is constructed without routes and every entry is add()ed afterwards (own stream: the other
        # dimensions of a seed stay what they were)
        cfg['late_add'] = S['late'].random() < 0.12
        if c.random() < 0.5:
            # the application's very first requests arrive at the same time
            sch = S['sched']
            n = sch.choice([2, 2, 3])
            gran = sch.choice(['line', 'line', 'ins'])
            hi = 200 if gran == 'line' else 1200
            names_t = ['T%d' % i for i in range(n)]
            order = list(names_t)
            sch.shuffle(order)
            cfg['first_batch'] = {'reqs': [{'route': sch.choice(['ok', 'ctx', 'missing', 'sub-ok', 'm405', 'empty', 'http403']),
                                            'method': sch.choice(['GET', 'GET', 'HEAD', 'POST'])} for _ in range(n)],
                                  'granularity': gran, 'order': order,
                                  'preempts': sorted([sch.randint(1, hi), sch.choice(['demote'] + names_t)] for _ in range(sch.randint(1, 6)))}
        ops = []
        grid = [(r, m) for r in ROUTES for m in ('GET', 'HEAD')]
        rng.shuffle(grid)
        for r, m in grid[:rng.randint(10, 30)]:
            ops.append(self.gen_op(rng, r, m))
        for _ in range(rng.randint(5, 20)):
            ops.append(self.gen_op(rng, rng.choice(ROUTES), rng.choice(METHODS)))
        if rng.random() < 0.4:
            ops.insert(rng.randint(0, len(ops) // 2), {'other_app': rng.choice(['serve-debugger', 'serve-debugger', 'serve-plain', 'construct-debug', 'reraise-handler'])})
        return {'world': 'gateway', 'seed': seed, 'config': cfg, 'ops': ops}

    @staticmethod
    def gen_op(rng, route, method):
        fs = []
        if route.startswith('static') and rng.random() < 0.35:
            # a filesystem call of this request fails (the file was removed, became unreadable, the disk errs) --
            # also AFTER the file was opened: whatever the answer is, nothing may stay open
            import errno
            fs = [{'call': rng.randint(1, 8), 'kind': 'oserror', 'errno': rng.choice([errno.ENOENT, errno.ENOENT, errno.EACCES, errno.EIO, errno.ESTALE])}]
        return {'route': route, 'method': method, 'headers': rng.choice(HEADER_SETS), 'fs_faults': fs,
                # what the server puts into the environ: everything / only what PEP 3333 requires; a query string of raw
                # (non-UTF-8) bytes as some clients send them
                'lean_environ': rng.random() < 0.25, 'raw_query': rng.choice([None, None, None, 'name=caf\xe9', 'x=\xff\xfe&y=1', 'ok=1&z=%E9']),
                'consume': rng.choice(['drain', 'drain', 'abort', 'noiter']), 'abort_after': rng.choice([0, 1, 2]),
                'fw': rng.choice([None, None, 'wsgiref', 'sim'])}

    # ------------------------------------------------------------------
    def build(self, cfg, root, target):
        classes = {}
        for n, t in sorted(cfg['types'].items()):
            # a subclass of another wrapper type is a different type: both wrap
            classes[n] = wrapper_type(n, t['unique'], classes.get(t.get('base')), t.get('beh', 'inplace'))

        def objs(level, lst):
            return [classes[n]('%s:%s' % (level, n)) for n in lst]

        def ok():
            return Response('ok' * 50, mimetype='text/plain')

        def stream():
            def gen():
                yield 'chunk-a'
                yield 'chunk-b'
                yield ''
                yield 'chunk-c'
            return Response(gen(), mimetype='text/plain')

        def ctx():
            return {'a': 1, 'b': ['x', 'y']}

        def boom():
            raise ValueError('x<b>&')

        def forbidden():
            raise Forbidden('nope')

        def rr():
            raise RerouteWSGI(target)

        def ctx_surrogate():
            # a context holding a string no UTF-8 encoder accepts (an fsdecode()d file name)
            return {'file': 'caf\udce9.conf', 'n': 1}

        # a reroute target that announces its response and THEN fails (before returning its iterable)
        def failing_target(environ, start_response):
            start_response('200 OK', [('Content-Type', 'text/plain'), ('X-Target', 'failing')])
            raise RuntimeError('the reroute target failed after start_response')

        def http520():
            # a status code the HTTP library has no phrase for, with the application's own wording
            from clastic.errors import HTTPException
            raise HTTPException(code=520, message='Origin unreachable \u2014 retry later', detail='upstream \u2603')

        # WSGI callables as they occur in the wild: PEP 3333 fixes the call, not the parameter NAMES
        def legacy_app(env, sr):
            return target(env, sr)

        def logged(app):
            def wrapper(*args, **kwargs):
                return app(*args, **kwargs)
            return wrapper

        def rr5():
            raise RerouteWSGI(logged(target))

        def empty():
            return Response('', status=200)

        def big():
            return Response(b'\x00\xff' * 70000, mimetype='application/octet-stream')

        def compressible():
            return Response('compress me ' * 500, mimetype='text/plain')
        inner = Application([Route('/x', ok, middlewares=objs('r', cfg['route_wrappers']))],
                            middlewares=objs('s', cfg['sub_wrappers']))
        routes = [('/ok', ok), ('/stream', stream), ('/ctx', ctx, render_basic), ('/s/', StaticApplication(root)),
                  ('/b/', ok), ('/bx/<x>/', lambda x: ok()), GET('/g', ok), ('/boom', boom), ('/forbidden', forbidden), ('/meta/', MetaApplication()),
                  Route('/gz', compressible, middlewares=[GzipMiddleware()]),
                  Route('/cache', ok, middlewares=[HTTPCacheMiddleware()]),
                  ('/http520', http520), ('/ctxs', ctx_surrogate, render_json), ('/rfail', RerouteWSGI(failing_target)), ('/rr', rr), ('/r2', RerouteWSGI(target)), ('/r4', RerouteWSGI(legacy_app)), ('/r5', rr5), ('/rb/', RerouteWSGI(target)),
                  ('/r3/<rest*>', RerouteWSGI(target.inner_app)), ('/in', inner), ('/empty', empty), ('/big', big),
                  ('/in2', Application([('/y', ok)], middlewares=objs('t', cfg.get('sib_wrappers', [])))),
                  ('/sgz', Application([('/', StaticApplication(root))], middlewares=[GzipMiddleware()])),
                  ('/nonresp', lambda: {'not': 'a response'})]
        if cfg.get('late_add'):
            app = Application([], middlewares=objs('o', cfg['outer_wrappers']), debug=cfg['debug'],
                              slash_mode=cfg.get('slash', 'redirect'))
            for entry in routes:
                app.add(entry)
        else:
            app = Application(routes, middlewares=objs('o', cfg['outer_wrappers']), debug=cfg['debug'],
                              slash_mode=cfg.get('slash', 'redirect'))
        if cfg.get('handler_switched'):
            # the finished application is given another error handler (its public method): everything else stays
            from clastic.errors import ErrorHandler, ContextualErrorHandler
            app.set_error_handler(ContextualErrorHandler() if cfg['debug'] else ErrorHandler())
        return app

    def execute(self, plan):
        res = RunResult()
        cfg = plan['config']
        K = 'C13/'
        root = tempfile.mkdtemp(prefix='simgw-', dir=SCRATCH)
        try:
            with open(os.path.join(root, 'a.txt'), 'wb') as f:
                f.write(b'small text file\n')
            with open(os.path.join(root, 'big.bin'), 'wb') as f:
                f.write(bytes(range(256)) * 200)
            with open(os.path.join(root, 'empty.txt'), 'wb') as f:
                pass                                                      # a zero-length file
            with open(os.path.join(root, 'LICENSE'), 'wb') as f:           # no extension to guess a type from, several blocks long
                f.write(b'Permission is hereby granted, free of charge...\n' * 300)
            with open(os.path.join(root, 'README'), 'wb') as f:
                f.write(b'short and without extension\n')
            with open(os.path.join(root, 'odd.txt'), 'wb') as f:
                f.write(b'a file from the far future\n')
            os.utime(os.path.join(root, 'odd.txt'), (2.6e11, 2.6e11))      # year ~10200: not a datetime (kept by tmpfs)
            with open(os.path.join(root, '\u65e5\u672c\u8a9e.txt'), 'wb') as f:     # a name outside ISO-8859-1
                f.write(b'nihongo\n')
            with open(os.path.join(root, 'two\nlines.txt'), 'wb') as f:              # a name with a line break in it
                f.write(b'a file whose name has two lines\n')
            seam = FsSeam()
            target = Target()
            with Seams() as sm:
                seam.install(sm, cstatic)
                HostStub(clock=SimClock()).install(sm, cmeta)
                seam.begin()
                try:
                    app = self.build(cfg, root, target)
                except Exception as e:
                    res.violate(K + 'setup-failed:%s' % type(e).__name__, '%r %s' % (e, canon(cfg)))
                    return res
                if cfg.get('handler_switched'):
                    res.probe('error-handler-switched-after-construction')
                fb = cfg.get('first_batch')
                if fb:
                    self.first_batch(app, cfg, fb, res)
                for step, op in enumerate(plan['ops']):
                    if res.violations:
                        break
                    if 'other_app' in op:
                        # something happens to ANOTHER application of the same process (prepared for the development
                        # server with its debugger, constructed in debug mode, given a re-raising handler)
                        from sim.props.c08 import C08
                        C08.other_app(op['other_app'], res)
                        res.ev(step, 'other_app', op['other_app'])
                        continue
                    self.one(app, cfg, op, step, res, seam, target)
        finally:
            shutil.rmtree(root, ignore_errors=True)
        res.steps = len(plan['ops'])
        return res

    def first_batch(self, app, cfg, fb, res):
        K = 'C13/'
        got = {}
        tasks = {}
        for i, rq in enumerate(fb['reqs']):
            env = make_environ(rq['method'], PATH[rq['route']], body=b'x=1' if rq['method'] == 'POST' else b'')
            tasks['T%d' % i] = (lambda i=i, env=env: got.__setitem__(i, (env, call_app(app, env, validate=True))))
        sched = BatonScheduler(fb.get('order', sorted(tasks)), fb.get('preempts', []), fb.get('granularity', 'line'), WATCH)
        sched.run(tasks)
        res.fire('preempt', len(sched.switches))
        res.probe('first-requests-concurrent')
        res.nontrivial = True
        res.ev('first-batch', len(fb['reqs']), 'switches', len(sched.switches), [got[i][1].code for i in sorted(got)])
        if sched.errors:
            res.violate(K + 'thread-raised:%s' % type(list(sched.errors.values())[0]).__name__, '%r' % (sched.errors,), 'first')
            return
        for i, rq in enumerate(fb['reqs']):
            env, ex = got[i]
            ctx = 'first batch: %s %s served concurrently with the other first requests %s' % (rq['method'], PATH[rq['route']], fb['reqs'])
            if ex.escaped is not None:
                res.violate(K + 'exception-escaped:%s@first-batch' % type(ex.escaped).__name__, ctx + ' -> %r' % (ex.escaped,), 'first')
                return
            for key, msg in ex.errors:
                res.violate(K + 'protocol:%s@first-batch' % key, ctx + ' -> %s %s' % (key, msg), 'first')
                return
            bad = self.wrapper_order_problem(cfg, env.get('sim.wrappers', []))
            if bad:
                res.violate(K + 'wrapper-order:' + bad[0] + ('@routes-added-after-construction' if cfg.get('late_add') else '') + '@first-batch', ctx + ' -> wrappers entered %r: %s' % (env.get('sim.wrappers', []), bad[1]), 'first')
                return

    def one(self, app, cfg, op, step, res, seam, target):
        K = 'C13/'
        fw = None
        if op.get('fw') == 'wsgiref':
            from wsgiref.util import FileWrapper as fw
        elif op.get('fw') == 'sim':
            fw = SimFileWrapper
        env = make_environ(op['method'], PATH[op['route']], headers=op['headers'], file_wrapper=fw,
                           body=b'x=1' if op['method'] == 'POST' else b'')
        if op.get('raw_query'):
            env['QUERY_STRING'] = op['raw_query']
            res.probe('query-string-of-raw-bytes')
        if op.get('lean_environ'):
            for k in ('QUERY_STRING',):       # (wsgiref's validator itself cannot do without SCRIPT_NAME)
                if not env.get(k):
                    env.pop(k, None)
            if op['method'] != 'POST':
                env.pop('CONTENT_TYPE', None)
                env.pop('CONTENT_LENGTH', None)
            res.probe('environ-without-optional-keys')
        snap = {}
        seen_env = []

        def shim(environ, start_response):
            # what the Application is handed (below wsgiref.validate, which swaps wsgi.input/wsgi.errors)
            snap.update(environ)
            seen_env.append(environ)
            return app(environ, start_response)
        seam.begin(op.get('fs_faults') or ())
        n_seen = len(target.seen)
        ex = call_app(shim, env, consume=op['consume'], abort_after=op.get('abort_after', 0), validate=True)
        env = seen_env[0] if seen_env else env
        leaked = seam.open_handles()
        opened = len(seam.ledger)
        fs_fired = list(seam.fired)
        seam.begin()
        for kind, site, _ in fs_fired:
            res.fire('fs:%s@%s' % (kind, site))
        if fs_fired and opened:
            res.probe('filesystem-error-after-the-file-was-opened')
        route, method = op['route'], op['method']
        ctx = 'step %d %s %s (%s) consume=%s/%s fw=%s debug=%s' % (step, method, PATH[route], route, op['consume'],
                                                                 op.get('abort_after'), op.get('fw'), cfg['debug'])
        stable_len = len(ex.body) if route not in ('meta', 'meta-json', 'boom') else '-'
        res.ev(step, route, method, op['consume'], op.get('fw'), '->', ex.code, stable_len, 'opened', opened)
        if op['consume'] != 'drain' or method == 'HEAD' or fw is not None or (ex.code or 0) >= 400:
            res.nontrivial = True
            res.sigs.add('%s|%s|%s|%s|%s' % (route, method, op['consume'], op.get('fw'), ex.code))
        if op['consume'] == 'abort':
            res.fire('client_abort')
        elif op['consume'] == 'noiter':
            res.fire('no_iteration')
        if method == 'HEAD':
            res.fire('head')
        if fw is not None:
            res.fire('file_wrapper:' + op['fw'])
        if route == 'target-fails-late':
            # the target's failure is the target's (it reaches the server); what the target announced was announced ONCE
            res.probe('reroute-target-fails-after-start-response')
            if len(ex.start_calls) != 1 or ex.start_calls[0][0] != '200 OK':
                res.violate(K + 'start_response-calls:%d@%s' % (len(ex.start_calls), route),
                            ctx + ' -> start_response called %d times: %r' % (len(ex.start_calls), [c[0] for c in ex.start_calls]), step)
            elif ex.escaped is None or type(ex.escaped).__name__ != 'RuntimeError':
                res.violate(K + 'reroute-target-failure-not-relayed', ctx + ' -> %r' % (ex.escaped,), step)
            return
        # --- protocol ---------------------------------------------------------
        if ex.escaped is not None and ex.escaped_phase in ('iter', 'close') and any(site == 'read' for _, site, _ in fs_fired):
            # a read error while the body is being sent: the server sees the exception (nothing else is possible
            # after start_response); the file must be released all the same
            res.probe('read-error-while-sending-body')
            if leaked:
                res.violate(K + 'file-not-released:read-error@%s' % ('fw-' + str(op.get('fw'))),
                            ctx + ' -> after close() still open: %r' % [os.path.basename(p) for p in leaked], step)
            return
        if ex.escaped is not None:
            res.violate(K + 'exception-escaped:%s@%s' % (type(ex.escaped).__name__, route), ctx + ' -> %r (phase %s)' % (ex.escaped, ex.escaped_phase), step)
            return
        for key, msg in ex.errors:
            res.violate(K + 'protocol:%s@%s' % (key, route), ctx + ' -> %s %s' % (key, msg), step)
            return
        if len(ex.start_calls) != 1:
            res.violate(K + 'start_response-calls:%d@%s' % (len(ex.start_calls), route), ctx, step)
            return
        if method == 'HEAD':
            res.probe('head-no-body')
        # --- files ------------------------------------------------------------
        if leaked:
            res.violate(K + 'file-not-released:%s@%s' % (op['consume'], 'fw-' + str(op.get('fw'))),
                        ctx + ' -> after close() still open: %r' % [os.path.basename(p) for p in leaked], step)
            return
        if opened and route.startswith('static-gz') and method == 'HEAD' and 'gzip' in op['headers'].get('Accept-Encoding', ''):
            res.probe('head-for-a-file-under-a-compressing-middleware')
        if opened and route == 'static-noext-big' and ex.code == 200:
            res.probe('big-file-without-extension-served')
        if route in ('reroute-fn-ep', 'reroute-deco-raise') and ex.code == 201:
            res.probe('reroute-target-with-other-parameter-names')
        if opened and route == 'static-empty' and ex.code == 200 and op.get('fw'):
            res.probe('empty-file-through-server-file-wrapper')
        if opened and route.startswith('static') and ex.code == 200:
            if op['consume'] == 'abort':
                res.probe('file-released-after-abort')
            elif op['consume'] == 'noiter':
                res.probe('file-released-without-iteration')
            if op.get('fw') == 'sim' and method != 'HEAD':
                res.probe('custom-file-wrapper-used')
        # --- wrappers ---------------------------------------------------------
        order = env.get('sim.wrappers', [])
        bad = self.wrapper_order_problem(cfg, order)
        if bad:
            if cfg.get('late_add'):
                res.probe('routes-added-after-construction-wrapper-problem')
            res.violate(K + 'wrapper-order:' + bad[0] + ('@routes-added-after-construction' if cfg.get('late_add') else ''), ctx + ' -> wrappers entered %r: %s' % (order, bad[1]), step)
            return
        # the environ the Application itself was handed: what the innermost wrapper passed inward
        inner_env = env['sim.chain'][-1] if env.get('sim.chain') else env
        if inner_env is not env:
            res.probe('wrapper-passes-copy-of-environ')
        sr_tags = [t for t in order if 'sr' in cfg['types'][t.split(':')[1]].get('beh', '')]
        missing_h = [t for t in sr_tags if ex.header(wrapper_header(t)) is None]
        if missing_h:
            res.violate(K + 'response-bypassed-wrapper@%s' % ('reroute' if route.startswith('reroute') else 'plain'),
                        ctx + ' -> wrappers %r were entered but the status/headers did not pass through them (headers %r)'
                        % (missing_h, ex.headers), step)
            return
        if sr_tags:
            res.probe('wrapper-decorates-start-response')
        if any('falsy' in cfg['types'][t.split(':')[1]].get('beh', '') for t in order):
            res.probe('wrapper-object-falsy-at-construction')
        # what the innermost start_response-decorating wrapper was handed / else what the server got
        inner_status, inner_headers = ex.status, ex.headers
        if sr_tags and env.get('sim.sr'):
            _, inner_status, inner_headers = env['sim.sr'][0]
        # --- reroute ----------------------------------------------------------
        mode = cfg.get('slash', 'redirect')
        if route in ('reroute-branch-noslash', 'reroute-branch-dslash') and mode != 'rewrite':
            # not a reroute in these modes: slash redirect / strict 404 (the inner mounts keep the statuses below)
            want = 302 if mode == 'redirect' else 404
            if ex.code != want:
                res.violate(K + 'status-%s-not-%s@%s' % (ex.code, want, route), ctx + ' -> %s (slash mode %s)' % (ex.status, mode), step)
            return
        if route == 'reroute-app':
            # the target application's own WSGI wrapper must have run, on the very same environ
            if not target.app_seen or target.app_seen[-1] is not inner_env:
                res.violate(K + 'reroute-target-app-not-called-as-wsgi', ctx + ' -> the target application\'s WSGI wrapper never saw this environ', step)
                return
            if ex.header('X-Target-Wrapper') != 'yes' or ex.code != 200 or (op['consume'] == 'drain' and method != 'HEAD' and ex.body != b'inner-application'):
                res.violate(K + 'reroute-response-not-verbatim', ctx + ' -> %r %r %r' % (ex.status, ex.headers, ex.body[:40]), step)
                return
            res.probe('reroute-to-wrapped-application')
            return
        if route.startswith('reroute'):
            if mode == 'rewrite' and route != 'reroute-branch':
                res.probe('reroute-through-rewritten-path')
            if len(target.seen) != n_seen + 1:
                res.violate(K + 'reroute-target-not-called', ctx, step)
                return
            tenv = target.seen[-1]
            if tenv is not inner_env:
                res.violate(K + 'reroute-environ-not-same-object', ctx + ' -> the target got a different environ object than the one '
                            'the application was called with%s' % (' (it got the server-side dict from outside the wrappers)' if tenv is env else ''), step)
                return
            changed = sorted(k for k in inner_env if k not in tenv or tenv[k] is not inner_env[k]) + \
                sorted(k for k in snap if k not in tenv or tenv[k] is not snap[k])
            if changed:
                res.violate(K + 'reroute-environ-entries-changed', ctx + ' -> entries replaced/removed: %r' % changed, step)
                return
            if (inner_status, inner_headers) != ('201 Created', TARGET_HEADERS):
                res.violate(K + 'reroute-response-not-verbatim', ctx + ' -> %r %r' % (inner_status, inner_headers), step)
                return
            if op['consume'] == 'drain' and ex.chunks != ([] if method == 'HEAD' else [b'from-', b'target']):
                res.violate(K + 'reroute-body-not-verbatim', ctx + ' -> %r' % ex.chunks, step)
                return
            res.probe('reroute-same-environ')
            return
        # --- a few status expectations (the rest is C06/C08 territory) -------
        expect = {'ok': 200, 'stream': 200, 'ctx': 200, 'static-small': 200, 'static-big': 200, 'static-empty': 200, 'static-noext-big': 200, 'static-noext-small': 200, 'static-missing': 404, 'static-gz-small': 200, 'static-gz-big': 200, 'static-unicode-name': 200, 'static-newline-name': 200, 'nonresp': 500,
                  'branch': 302, 'missing': 404, 'boom': 500, 'http403': 403, 'http520': 520, 'ctx-surrogate': 200, 'meta': 200, 'meta-json': 200, 'gz': 200,
                  'cache': 200, 'sub-ok': 200, 'empty': 200, 'bytes-big': 200}
        want = expect.get(route)
        if 'Range' in op['headers'] and route.startswith('static'):
            res.probe('range-request-on-static-file')
            if ex.code in (206, 416):
                want = None       # a server may or may not honour ranges; whatever it answers, the protocol and ledger checks above apply
        if 'If-Modified-Since' in op['headers'] and route.startswith('static') and ex.code == 304:
            res.probe('conditional-static-304')
            want = None
        if route == 'branch' or route.startswith('branch-ctl'):
            want = {'redirect': 302, 'rewrite': 200, 'strict': 404}[mode]
            if route != 'branch':
                res.probe('slash-redirect-of-a-path-with-control-characters')
        if route in ('meta', 'meta-json', 'static-small', 'static-big', 'static-empty', 'static-noext-big', 'static-noext-small', 'static-missing', 'static-oddtime', 'sub-ok', 'static-gz-small', 'static-gz-big', 'static-unicode-name', 'static-newline-name') and mode == 'strict':
            want = None      # embedded applications under a strict host: slash handling of their mounts is C07 territory
        if route == 'static-oddtime':
            res.probe('static-file-with-unrepresentable-mtime')
            if ex.code not in (200, 403, 404):
                res.violate(K + 'status-%s@static-oddtime' % ex.code, ctx + ' -> %s' % ex.status, step)
                return
            want = None
        if route == 'm405':
            want = 200 if method in ('GET', 'HEAD') else 405
        if route in ('cache',) and 'If-None-Match' in op['headers']:
            want = None
        if fs_fired:
            if ex.code not in (200, 304, 403, 404):
                res.violate(K + 'status-%s@static-with-filesystem-error' % ex.code, ctx + ' -> %s after %r' % (ex.status, fs_fired), step)
            return
        if want is not None and ex.code != want:
            res.violate(K + 'status-%s-not-%s@%s' % (ex.code, want, route), ctx + ' -> %s' % ex.status, step)
            return
        if route == 'boom' and cfg['debug']:
            res.probe('debug-500')
        if route == 'gz' and ex.header('Content-Encoding') == 'gzip':
            res.probe('gzip-applied')
        if op['consume'] == 'drain' and method != 'HEAD' and ex.code == 200:
            cl = ex.header('Content-Length')
            if cl is not None and int(cl) != len(ex.body):
                res.violate(K + 'content-length-mismatch@%s' % route, ctx + ' -> Content-Length %s, %d bytes sent' % (cl, len(ex.body)), step)

    @staticmethod
    def wrapper_order_problem(cfg, order):
        """Only what the property states: list order within a level, an embedding
        application's wrappers before the embedded one's, a unique type once.
        Levels: o = outermost app, s = embedded app, r = a route of it, t = a sibling embedded app."""
        types = cfg['types']
        lists = {'o': cfg['outer_wrappers'], 's': cfg['sub_wrappers'], 'r': cfg['route_wrappers'], 't': cfg.get('sib_wrappers', [])}
        if len(set(order)) != len(order):
            return ('same-wrapper-twice', 'one middleware object wraps twice')
        names = [t.split(':')[1] for t in order]
        for n in sorted(set(names)):
            if types[n]['unique'] and names.count(n) > 1:
                return ('unique-applied-twice', 'unique type %s wraps %d times' % (n, names.count(n)))
        for level, lst in sorted(lists.items()):
            got = [t.split(':')[1] for t in order if t.startswith(level + ':')]
            if got != [n for n in lst if n in got]:
                return ('list-order', 'level %s wraps in order %r, its list is %r' % (level, got, lst))
            for n in lst:
                if n not in names:
                    return ('wrapper-missing', '%s (level %s) does not wrap at all' % (n, level))
                if not types[n]['unique'] and (level + ':' + n) not in order:
                    return ('wrapper-missing', 'non-unique %s of level %s does not wrap' % (n, level))
        for n in lists['o']:
            if 'o:' + n not in order:
                return ('outer-wrapper-missing', '%s of the outermost application must be the instance that wraps' % n)
        pos = dict((t, i) for i, t in enumerate(order))
        for t in order:
            lvl = t.split(':')[0]
            outer_levels = {'o': [], 's': ['o'], 't': ['o'], 'r': ['o', 's']}[lvl]
            for u in order:
                if u.split(':')[0] in outer_levels and pos[u] > pos[t]:
                    return ('embedding-order', '%s (embedded level) wraps outside %s (embedding level)' % (t, u))
        return None


CHECK = C13()
