"""C06 -- dispatch: first match in order, methods, 404/405, non-breaking fallthrough
(routing-table world: add()/request histories against a sequential dispatch model).

plan = {config: {mode, ctor: [entry...]}, ops: [{op:'add', entry, index} | {op:'req', path, method} | {op:'sweep'}]}
entry = {pattern, methods, out, tag}
"""
from clastic import Application, Route, Response

from sim.core.base import Check, RunResult, Streams, InvalidPlan, canon
from sim.core.gateway import make_environ, call_app
from sim.worlds import routing as R
from sim.core.sched import BatonScheduler
from sim.core import runner
import os

import clastic.route as croute

WATCH = (os.path.join(runner.REPO, 'clastic') + os.sep, '<sinter')


_EP_CACHE = {}


def endpoint_for(e, shared):
    """One endpoint object per (run, tag): an entry added a second time is the SAME route again."""
    key = (id(shared), e['tag'], e['out'])
    if key not in _EP_CACHE:
        if len(_EP_CACHE) > 500:
            _EP_CACHE.clear()
        _EP_CACHE[key] = R.make_endpoint(e['tag'], e['out'], shared)
    return _EP_CACHE[key]


def make_route(e, shared=None):
    ms = e['methods']
    if e.get('mform') == 'class' and ms and len(ms) == 1 and hasattr(croute, ms[0].upper()):
        # the convenience class named after the method (clastic.route.GET, POST, ..., OPTIONS, TRACE, CONNECT, PATCH)
        return getattr(croute, ms[0].upper())(e['pattern'], endpoint_for(e, shared))
    if ms is not None:
        # any collection a caller may hand over (an empty one means "no restriction", like None)
        ms = {'class': list, 'list': list, 'tuple': tuple, 'set': set, 'frozenset': frozenset, 'iter': iter, 'gen': lambda m: (x for x in m), 'map': lambda m: map(str, m), 'dictkeys': lambda m: dict.fromkeys(m).keys()}[e.get('mform', 'list')](ms)
    return Route(e['pattern'], endpoint_for(e, shared), methods=ms)


_FRONT = []


def front_app():
    """Another application of the same server: every request ends in an error there, after method-restricted routes
    were rejected and non-breaking errors were recorded."""
    if not _FRONT:
        from clastic.errors import Forbidden, NotFound

        def nb403(**kw):
            raise Forbidden(is_breaking=False)

        def nb404(**kw):
            return NotFound(is_breaking=False)
        _FRONT.append(Application([Route('/<rest*>', lambda rest: Response('never'), methods=['TRACE', 'CONNECT']),
                                   Route('/a', lambda: Response('never'), methods=['PATCH']),
                                   Route('/<x>', nb403), Route('/<x>/<y>', nb403), Route('/<rest*>', nb404)]))
    return _FRONT[0]


class C06(Check):
    id = 'C06'
    world = 'routing-table'
    level = 'exploration'
    design_ref = 'DESIGN.md 3.3'
    runs = {'quick': 700, 'thorough': 10000}
    shrink_lists = (('ops',), ('config', 'ctor'))
    hashseeds = {'quick': ['1:OA'], 'thorough': ['1:OA', 2]}
    rule = ('routing tables of up to 6 routes from a catalogue of overlapping/disjoint patterns (match relation known by '
            'construction), method sets (none/one/several/lower-case), route outcomes (answer, breaking 4xx/5xx raised/returned, '
            'non-breaking 403/404 raised/returned, uncaught exception); built by constructor list and by add(entry, index) '
            'steps INTERLEAVED with requests over paths x methods (standard, lower-case, unknown); all three slash modes. '
            'Every response is compared (status, answering route, Allow, Location) with a sequential model of the dispatch '
            'loop. Non-trivial: a request whose outcome involved a method mismatch, a fallthrough or an error; '
            'distinct = (mode, #routes, path class, method, outcome shape).')
    assumptions = ('pattern literals use [A-Za-z0-9_-] only (DESIGN O1)',
                   'in strict mode only patterns with a single spelling per match are generated')
    components = {'real': ['clastic.application.Application.add/dispatch', 'DispatchState', 'NullRoute', 'BoundRoute.match_path/match_method',
                           'clastic.errors (MethodNotAllowed, NotFound)', 'werkzeug Request'],
                  'stub': ['endpoints (harness functions with scripted outcomes)', 'WSGI server/client']}
    level_text = ('Seeded search over table-building histories interleaved with request streams; per table the full '
                  'paths x methods catalogue is swept at least once. The table/history space is sampled.')
    level_note = 'Trusted: the sequential dispatch model (~40 lines) and the catalogue match relation.'
    required_probes = ('environ-seen-by-another-application-first', 'debug-application', 'concurrent-requests', 'add-concurrent-with-request', '405-with-allow', 'fallthrough-then-later-route', 'fallthrough-last-error-wins', 'add-at-index', 'add-at-index-below-range', 'add-at-negative-index',
                       'head-on-get-route', 'lowercase-method', 'redirect-302', 'strict-mode')

    def gen_entry(self, rng, mode, k):
        pats = R.STRICT_OK if mode == 'strict' else sorted(R.CAT)
        return {'pattern': rng.choice(pats), 'methods': rng.choice(R.METHOD_SETS),
                'mform': rng.choice(['list', 'class', 'class', 'tuple', 'set', 'frozenset', 'dictkeys', 'iter', 'gen', 'map']),
                'out': rng.choice(R.OUTCOMES + ['nbS403', 'nbS403', 'nbS404']), 'tag': 'r%d' % k}

    def generate(self, seed, tier):
        S = Streams(seed)
        c, rng = S['config'], S['ops']
        mode = c.choice(['redirect', 'redirect', 'rewrite', 'strict'])
        k = 0
        ctor = []
        for _ in range(c.randint(0, 3)):
            ctor.append(self.gen_entry(c, mode, k))
            k += 1
        ops = []
        n_routes = len(ctor)
        for _ in range(rng.randint(6, 40)):
            r = rng.random()
            if r < 0.15 and n_routes < 6:
                # any integer, with list.insert() meaning: also negative, and out of range on either side
                idx = rng.choice([None, None, None] + list(range(n_routes + 1)) + list(range(-n_routes - 3, 0)) + [n_routes + 2])
                op = {'op': 'add', 'entry': self.gen_entry(rng, mode, k), 'index': idx}
                prev = [o['entry'] for o in ops if o.get('entry')] + ctor
                if prev and rng.random() < 0.2:
                    # the very same route (pattern, endpoint, methods) once more, somewhere else in the table
                    op['entry'] = dict(rng.choice(prev))
                if rng.random() < 0.35:
                    # the table is extended WHILE a request is being served on another thread
                    sch = S['sched']
                    gran = sch.choice(['line', 'line', 'ins'])
                    hi = 250 if gran == 'line' else 1500
                    order = sch.choice([['A', 'R'], ['R', 'A']])
                    op.update({'op': 'add_conc', 'req': {'path': rng.choice(R.PATHS), 'method': rng.choice(R.METHODS[:5])},
                               'granularity': gran, 'order': order,
                               'preempts': sorted([sch.randint(1, hi), sch.choice(['demote', 'A', 'R'])] for _ in range(sch.randint(1, 5)))})
                ops.append(op)
                k += 1
                n_routes += 1
                if op['op'] == 'add_conc':
                    ops.append({'op': 'sweep'})
            elif r < 0.2:
                ops.append({'op': 'sweep'})
            elif r < 0.27:
                # several requests served at once on the same table
                sch = S['sched']
                n = sch.choice([2, 2, 3])
                gran = sch.choice(['line', 'line', 'ins'])
                hi = 250 if gran == 'line' else 1500
                names = ['T%d' % i for i in range(n)]
                order = list(names)
                sch.shuffle(order)
                # (the clients of one batch ask for two paths between them: whatever is remembered per route about "the last
                # path" is fought over)
                pool = rng.sample(R.PATHS, 2)
                ops.append({'op': 'conc', 'reqs': [{'path': rng.choice(pool), 'method': rng.choice(R.METHODS[:5])} for _ in range(n)],
                            'granularity': gran, 'order': order,
                            'preempts': sorted([sch.randint(1, hi), sch.choice(['demote'] + names)] for _ in range(sch.randint(1, 6)))})
                if sch.random() < 0.5:
                    # function-focused: the clients are parked inside the functions every candidate route goes through
                    ops[-1]['hot_funcs'] = sch.sample(['match_path', 'match_method', 'dispatch', 'execute', 'update_methods', 'add_exception'], sch.choice([1, 2]))
                    ops[-1]['hot_bits'] = [1 if sch.random() < 0.35 else 0 for _ in range(80)]
            else:
                ops.append({'op': 'req', 'path': rng.choice(R.PATHS), 'method': rng.choice(R.METHODS)})
                if rng.random() < 0.15:
                    ops[-1]['cascade'] = True
        ops.append({'op': 'sweep'})
        accepts = [c.choice([None, None, 'text/html', 'application/json', 'application/xml', '*/*', 'text/plain']) for _ in range(c.randint(1, 5))]
        return {'world': 'routing-table', 'seed': seed,
                'config': {'mode': mode, 'ctor': ctor, 'debug': c.random() < 0.2, 'accepts': accepts}, 'ops': ops}

    def execute(self, plan):
        res = RunResult()
        cfg = plan['config']
        mode = cfg['mode']
        K = 'C06/'
        table = [dict(e, mode=mode, prefix='') for e in cfg['ctor']]
        shared = R.make_shared_errors()      # pre-built error objects that several routes of this table return
        try:
            # debug: the application renders its errors with the contextual (debug) handler, for clients that ask for
            # html / json / xml (the Accept header of each request is part of the plan)
            app = Application([make_route(e, shared) for e in cfg['ctor']], slash_mode=mode, **({'debug': True} if cfg.get('debug') else {}))
        except Exception as e:
            res.violate(K + 'setup-failed:%s' % type(e).__name__, '%r %s' % (e, canon(cfg)))
            return res
        if mode == 'strict':
            res.probe('strict-mode')

        accepts = cfg.get('accepts') or [None]
        if cfg.get('debug'):
            res.probe('debug-application')

        def env_for(method, path, k):
            a = accepts[(k if isinstance(k, int) else 0) % len(accepts)]
            return make_environ(method, path, headers={'Accept': a} if a else {})

        def one(path, method, step, cascade=False):
            exp = R.dispatch_model(table, path, method)
            env = env_for(method, path, step)
            if cascade:
                # the server tries another application first (a cascade: "next one while the answer is 404/405") and hands
                # the SAME environ dict on: what that application found out about the request is its own business
                call_app(front_app(), env, validate=False)
                res.probe('environ-seen-by-another-application-first')
            ex = call_app(app, env, validate=False)
            got = R.observe(ex)
            bad = R.compare(exp, got)
            shape = self.shape(exp, table, path, method)
            if shape[0] != 'plain':
                res.nontrivial = True
                res.sigs.add('%s|%d|%s' % (mode, len(table), shape))
            self.probes(res, exp, table, path, method)
            # routes that "fail" in the ways the property names are this world's faults
            for e in table:
                if e['out'] != 'ok' and R.path_matches(e, path) and R.admits(e['methods'], method)[0]:
                    res.fire('route_outcome:' + e['out'])
                    if exp.get('entry') is e or e['out'].startswith('nb'):
                        continue
                    break
            if bad:
                res.violate(K + bad[0], 'step %s %s %s (mode %s): %s\n table: %s\n got: %s'
                            % (step, method, path, mode, bad[1],
                               [(e['pattern'], e['methods'], e['out'], e['tag']) for e in table],
                               dict((k, v) for k, v in got.items() if v is not None)), step)
                return False
            return got

        for step, op in enumerate(plan['ops']):
            if op['op'] == 'add':
                e = dict(op['entry'], mode=mode, prefix='')
                idx = op['index']
                before = [r.pattern for r in app.routes]
                try:
                    app.add(make_route(op['entry'], shared), index=idx)
                except Exception as ex:
                    res.violate(K + 'add-failed:%s' % type(ex).__name__, 'step %d add(%s, index=%r): %r' % (step, op['entry'], idx, ex), step)
                    break
                if idx is None:
                    table.append(e)
                else:
                    if idx < -len(table) and len(table) >= 2:
                        res.probe('add-at-index-below-range')
                    if idx < 0:
                        res.probe('add-at-negative-index')
                    table.insert(idx, e)
                    res.probe('add-at-index')
                res.ev(step, 'add', e['pattern'], idx)
                pats = [r.pattern for r in app.routes]
                if pats != [t['pattern'] for t in table]:
                    res.violate(K + 'routes-reordered', 'step %d after add(index=%r): routes %r, expected %r (before: %r)'
                                % (step, idx, pats, [t['pattern'] for t in table], before), step)
                    break
            elif op['op'] == 'conc':
                got = {}
                tasks = {}
                for i, rq in enumerate(op['reqs']):
                    tasks['T%d' % i] = (lambda i=i, rq=rq: got.__setitem__(i, call_app(app, env_for(rq['method'], rq['path'], step + i), validate=False)))
                sched = BatonScheduler(op.get('order', sorted(tasks)), op.get('preempts', []), op.get('granularity', 'line'), WATCH,
                                       hot_funcs=op.get('hot_funcs'), hot_bits=op.get('hot_bits'))
                sched.run(tasks)
                res.fire('preempt', len(sched.switches))
                res.probe('concurrent-requests')
                if sched.errors:
                    res.violate(K + 'thread-raised:%s' % type(list(sched.errors.values())[0]).__name__, '%r' % (sched.errors,), step)
                    break
                bad = None
                for i, rq in enumerate(op['reqs']):
                    exp = R.dispatch_model(table, rq['path'], rq['method'])
                    o = R.observe(got[i])
                    b = R.compare(exp, o)
                    if b:
                        bad = (rq, b, o)
                        break
                res.ev(step, 'conc', len(op['reqs']), 'switches', len(sched.switches), [got[i].code for i in sorted(got)])
                if bad:
                    res.violate(K + 'concurrent/' + bad[1][0], 'step %d %s %s served concurrently with %s (mode %s): %s\n table: %s\n got: %s'
                                % (step, bad[0]['method'], bad[0]['path'], [r for r in op['reqs'] if r is not bad[0]], mode, bad[1][1],
                                   [(e['pattern'], e['methods'], e['out'], e['tag']) for e in table],
                                   dict((k, v) for k, v in bad[2].items() if v is not None)), step)
                    break
            elif op['op'] == 'add_conc':
                e = dict(op['entry'], mode=mode, prefix='')
                idx = op['index']
                before_tbl = list(table)
                after_tbl = list(table)
                if idx is None:
                    after_tbl.append(e)
                else:
                    after_tbl.insert(idx, e)
                out = {}

                def do_add():
                    try:
                        app.add(make_route(op['entry'], shared), index=idx)
                    except Exception as ex:
                        out['add_exc'] = ex

                def do_req():
                    out['ex'] = call_app(app, env_for(op['req']['method'], op['req']['path'], step), validate=False)
                sched = BatonScheduler(op.get('order', ['A', 'R']), op.get('preempts', []), op.get('granularity', 'line'), WATCH)
                sched.run({'A': do_add, 'R': do_req})
                res.fire('preempt', len(sched.switches))
                res.probe('add-concurrent-with-request')
                res.nontrivial = True
                if 'add_exc' in out or sched.errors:
                    res.violate(K + 'add-failed:%s' % type(out.get('add_exc') or list(sched.errors.values())[0]).__name__,
                                'step %d concurrent add raised %r %r' % (step, out.get('add_exc'), sched.errors), step)
                    break
                got = R.observe(out['ex'])
                exp_b = R.dispatch_model(before_tbl, op['req']['path'], op['req']['method'])
                exp_a = R.dispatch_model(after_tbl, op['req']['path'], op['req']['method'])
                if R.compare(exp_b, got) and R.compare(exp_a, got):
                    res.violate(K + 'request-during-add-inconsistent',
                                'step %d %s %s served while add(index=%r) ran: %s matches neither the table before nor after'
                                % (step, op['req']['method'], op['req']['path'], idx, dict((k, v) for k, v in got.items() if v is not None)), step)
                    break
                table[:] = after_tbl
                res.ev(step, 'add_conc', e['pattern'], idx, 'switches', len(sched.switches), got['status'])
                pats = [r.pattern for r in app.routes]
                if pats != [t['pattern'] for t in table]:
                    res.violate(K + 'routes-reordered', 'step %d after concurrent add(index=%r): routes %r, expected %r'
                                % (step, idx, pats, [t['pattern'] for t in table]), step)
                    break
            elif op['op'] == 'req':
                got = one(op['path'], op['method'], step, cascade=bool(op.get('cascade')))
                if got is False:
                    break
                res.ev(step, 'req', op['method'], op['path'], got['status'], got['tag'])
            else:
                ok = True
                n = 0
                last = step == len(plan['ops']) - 1
                for pi, path in enumerate(R.PATHS):
                    # the closing sweep asks every path with every method, the ones in between with a rotating third
                    for method in (R.METHODS if last else R.METHODS[(pi + step) % 3::3]):
                        n += 1
                        if one(path, method, step, cascade=(n % 7 == 0)) is False:
                            ok = False
                            break
                    if not ok:
                        break
                res.ev(step, 'sweep', n, ok)
                if not ok:
                    break
        res.steps = len(plan['ops'])
        return res

    @staticmethod
    def shape(exp, table, path, method):
        matching = [e for e in table if R.path_matches(e, path)]
        mism = [e for e in matching if not R.admits(e['methods'], method)[0]]
        nb = [e for e in matching if e['out'].startswith('nb') and R.admits(e['methods'], method)[0]]
        if not mism and not nb and exp['status'] == 200:
            return ('plain',)
        return (len(matching), len(mism), len(nb), exp['status'], method if method in ('HEAD', 'get', 'FOO') else 'std')

    @staticmethod
    def probes(res, exp, table, path, method):
        if exp['status'] == 405:
            res.probe('405-with-allow')
        if exp['status'] == 302:
            res.probe('redirect-302')
        if method == 'HEAD' and exp.get('entry') and exp['entry']['methods'] and 'HEAD' not in [m.upper() for m in exp['entry']['methods']]:
            res.probe('head-on-get-route')
        if method.islower() and exp['status'] == 200:
            res.probe('lowercase-method')
        nb = [e for e in table if R.path_matches(e, path) and R.admits(e['methods'], method)[0] and e['out'].startswith('nb')]
        if nb and exp.get('entry') and table.index(exp['entry']) > table.index(nb[0]):
            res.probe('fallthrough-then-later-route')
        if len(nb) > 1 and exp['tag'] == nb[-1]['tag']:
            res.probe('fallthrough-last-error-wins')


CHECK = C06()
