"""C11 -- binding is non-destructive, applications are isolated, add() is atomic
(routing-table world: operation histories with mid-operation failures).

plan = {config: {apps: [{mode}], routes: [entry...]}, ops: [...]}
ops: new_app / add_route / add_tuple / embed / add_fail / req  (see generate)
After EVERY op every live application is compared with its model routing table.
"""
from clastic import Application, Route, SubApplication, Middleware, Response

from sim.core.base import Check, RunResult, Streams, InvalidPlan, HarnessError, canon
from sim.core.gateway import make_environ, call_app
from sim.worlds import routing as R

EXAMPLE = {'/a': ['/a'], '/a/': ['/a/', '/a'], '/a/b': ['/a/b'], '/<x>': ['/q'], '/<x>/': ['/q/'], '/a/<n:int>': ['/a/7'],
           '/<x>/<y>': ['/q/r'], '/a/<rest+>': ['/a/b/c'], '/<rest*>': ['/', '/z/z/z'], '/b/<x?>': ['/b', '/b/q'],
           '/c/<n:int>/': ['/c/5/']}
FAIL_KINDS = ['badmw-instance', 'unresolved', 'badpattern', 'badpattern2', 'dupbinding', 'conflict-url-res', 'badmw', 'notaroute',
              'badtuple', 'bind-raises', 'sub-kth-fails', 'sub-kth-fails', 'sub-mw-dup', 'route-reserved-resource',
              'sub-kth-cycle', 'sub-kth-raises']
N_CTOR_KINDS = 10


class SimBindError(LookupError):
    pass


BIND_EXCS = [RuntimeError, OSError, KeyError, SimBindError, AssertionError, ValueError]
NEW_SUB_KINDS = ('sub-kth-cycle', 'sub-kth-raises')


class ExplodingRoute(Route):
    """A route type of the application's own whose binding fails -- with whatever exception its author chose."""
    exc_type = RuntimeError

    def bind(self, app, **kwargs):
        raise self.exc_type('this route cannot be bound into %r' % type(app).__name__)


class CycX(Middleware):
    """application level: provides cx and would like cy.  Alone it is fine; together with CycY (which provides cy and
    would like cx) clastic's dependency resolver reports a cycle (RuntimeError) when the route is bound."""
    provides = ('cx',)

    def request(self, next, cy=None):
        return next(cx='cx')


class CycY(Middleware):
    endpoint_provides = ('cy',)

    def endpoint(self, next, cx=None):
        return next(cy='cy')


class RouteMarkMW(Middleware):
    """route-level middleware (listed on the Route itself): marks the responses of that route wherever it is bound"""
    unique = False

    def __init__(self, mark):
        self.mark = mark

    def request(self, next):
        resp = next()
        try:
            resp.headers['X-Route-Mark'] = self.mark
        except Exception:
            pass
        return resp


class InstanceHookMW(Middleware):
    """a middleware class whose hook is made per INSTANCE (like clastic's ContextProcessor): one instance may be fine and
    another one of the same class unusable"""
    unique = False

    def __init__(self, good):
        if good:
            self.request = lambda next: next()
        else:
            self.request = lambda request: Response('hijacked')     # takes no next: not a middleware function


class OddWrapperMW(Middleware):
    """route-level middleware whose wsgi_wrapper attribute is not usable (route-level wrappers are not applied at all)"""
    unique = False
    wsgi_wrapper = 42

    def request(self, next):
        return next()


class StampMW(Middleware):
    """application-level middleware configured per application: marks every response that passes through it."""

    def __init__(self, stamp):
        self.stamp = stamp

    def request(self, next):
        resp = next()
        try:
            resp.headers['X-Stamp'] = ','.join([x for x in [resp.headers.get('X-Stamp')] if x] + [self.stamp])
        except Exception:
            pass
        return resp


class NoNext(Middleware):
    def request(self, request):
        return Response('bad')


class NonReorderable(Middleware):
    """unique and not reorderable: including it twice on one route is a documented ValueError"""
    reorderable = False

    def request(self, next):
        return next()


def needs_unknown(nosuch_argument):
    return Response('never')


class Pool(object):
    """The live objects of one run plus their models."""

    def __init__(self, cfg):
        self.cfg = cfg
        self.apps = {}       # index -> Application
        self.model = {}      # index -> [entry...]
        self.res = {}        # index -> set(resource names)
        self.mode = {}
        self.routes = {}     # index -> (Route object, entry spec, snapshot)
        self.tagn = 0

    def app_resources(self, i):
        return dict(('res%d_%d' % (i, k), 'value-%d-%d' % (i, k)) for k in range(1 + i % 2))

    def route_obj(self, r):
        if r not in self.routes:
            e = self.cfg['routes'][r]
            rr = dict((n, 'rv') for n in e.get('route_res', []))
            obj = Route(e['pattern'], R.make_endpoint(e['tag'], e['out']), 'tmpl' if e['out'] == 'ctx' else None,
                        methods=e['methods'], resources=rr,
                        middlewares=([RouteMarkMW('mark-' + e['tag'])] if e.get('route_mw') else [])
                        + ([OddWrapperMW()] if e.get('odd_wrapper') else []))
            self.routes[r] = (obj, e, self.snapshot(obj))
        return self.routes[r][0]

    @staticmethod
    def snapshot(route):
        return (route.pattern, sorted(route.methods or []), sorted(route.resources), list(route.middlewares), route.slash_mode,
                route.render, getattr(route, 'bound_apps', None))

    def bound_entry(self, e, i, prefix=''):
        """Model entry of route spec *e* bound (first time) into application i."""
        return {'pattern': e.get('key', e['pattern']), 'actual': prefix + e['pattern'], 'prefix': prefix, 'mode': self.mode[i],
                'methods': e['methods'], 'out': e['out'], 'tag': e['tag'],
                'res': sorted(set(self.res[i]) | set(e.get('route_res', []))), 'nr': bool(self.cfg['apps'][i].get('nr_mw')),
                'render': ('F%d' % i) if (e['out'] == 'ctx' and self.cfg['apps'][i].get('factory')) else None, 'chain': [i],
                'stamp': ('S%d' % i) if self.cfg['apps'][i].get('stamp') else None,
                'route_mark': ('mark-' + e['tag']) if e.get('route_mw') else None,
                # the harness's decorated variant calls the endpoint itself, with the three built-ins only
                'wrapped': bool(e.get('wrapped'))}

    def embedded_entry(self, entry, i, prefix, rebind=False):
        """Model entry of an already bound entry re-bound into application i under prefix.
        Renderer: the inner route keeps its own unless re-binding was requested (or it has none yet); then the
        most recently bound application that has a render factory makes it."""
        chain = entry['chain'] + [i]
        render = entry['render']
        if entry['out'] == 'ctx' and (rebind or render is None):
            withf = [a for a in chain if self.cfg['apps'][a].get('factory')]
            if withf:
                render = 'F%d' % withf[-1]
        # StampMW is a unique type: of the parent's and the child's instance the OUTER one (the parent's) is kept
        stamp = ('S%d' % i) if self.cfg['apps'][i].get('stamp') else entry.get('stamp')
        return dict(entry, actual=prefix + entry['actual'], prefix=prefix + entry['prefix'], mode=self.mode[i], render=render, chain=chain, stamp=stamp,
                    res=sorted(set(self.res[i]) | set(entry['res'])), nr=entry['nr'] or bool(self.cfg['apps'][i].get('nr_mw')))


class C11(Check):
    id = 'C11'
    world = 'routing-table'
    level = 'fault_enumeration'
    design_ref = 'DESIGN.md 3.5'
    runs = {'quick': 1500, 'thorough': 8000}
    shrink_lists = (('ops',), ('shipped', 'seq'))
    rule = ('histories (<= 24 ops quick, <= 64 thorough) over a pool of <= 4 applications and <= 8 Route objects: construct '
            'application (possibly with a failing k-th entry), add route / tuple / SubApplication / (prefix, app) at an index, '
            'add an entry that FAILS (15 kinds incl. dependency cycles with the parent, application-defined route types whose bind raises any exception type, an embedded application whose k-th route cannot be re-bound), bind one Route '
            'into several applications, request. After every op every live application is compared with its model routing table '
            '(patterns) and probed with requests derived from the model (status, answering route, visible resources). '
            'Non-trivial: history with a failed op or an embedding; distinct = (op kind, failure kind, k, #live apps, table sizes).')
    assumptions = ('resource names are disjoint per application, so a leak through an aliased dict is observable',
                   'expected exception types of failing operations are not judged (C01/C04), only that nothing changed')
    components = {'real': ['Application.__init__/add', 'SubApplication.bind_all', 'Route.bind / BoundRoute.__init__', 'sinter.compile_code cache',
                           'dispatch'],
                  'stub': ['endpoints with scripted outcomes', 'mid-operation failures (entries that cannot be bound)', 'WSGI server/client']}
    level_text = ('Every failure kind x position k of a multi-route operation is exercised across seeds (the per-operation '
                  'failure positions are few and swept: k in 0..2 for embedded applications and constructor lists); histories are sampled.')
    level_note = 'Trusted: the model routing tables and the dispatch model shared with C06.'
    forbidden_probes = ('failing-op-succeeded',)
    required_probes = ('shipped-application-in-two-hosts', 'several-routes-added-at-a-negative-index', 'decorated-variant-of-an-endpoint-bound-elsewhere', 'route-with-own-middleware-bound-twice', 're-embedded-after-an-inner-application-was-dropped', 'application-reference-dropped-while-embedded', 'child-changed-after-subapplication-was-made', 'one-route-in-two-applications-with-equal-typed-stacks', 'sub-kth-fails-with-other-exception-type', 'strict-application', 'context-rendered-by-factory', 'embed-with-rebind-render', 'failed-add-unchanged', 'sub-kth-fails-unchanged', 'ctor-failed', 'route-bound-twice', 'embedded-then-child-changed',
                       'embed-depth-2', 'add-at-index')

    # ---- generation --------------------------------------------------------
    def generate(self, seed, tier):
        S = Streams(seed)
        c, rng, frng = S['config'], S['ops'], S['faults']
        napps = c.randint(2, 4)
        strict_run = c.random() < 0.25
        apps = [{'mode': c.choice(['strict', 'strict', 'redirect'] if strict_run else ['redirect', 'redirect', 'rewrite']),
                 'nr_mw': c.random() < 0.4, 'factory': c.random() < 0.5, 'stamp': c.random() < 0.6, 'cyc_mw': c.random() < 0.5, 'insthook': c.random() < 0.5}
                for _ in range(napps)]
        pats = R.STRICT_OK if strict_run else sorted(R.CAT)      # strict mode: patterns with a single spelling per match
        routes = []
        for k in range(c.randint(3, 8)):
            routes.append({'pattern': c.choice(pats), 'methods': c.choice(R.METHOD_SETS), 'out': c.choice(R.OUTCOMES + ['ctx'] * 4),
                           'tag': 'R%d' % k, 'route_res': ['rr%d' % k] if c.random() < 0.3 else [], 'route_mw': c.random() < 0.5, 'odd_wrapper': c.random() < 0.25})
        ops = []
        tagn = [0]

        def entry():
            tagn[0] += 1
            return {'pattern': rng.choice(pats), 'methods': rng.choice(R.METHOD_SETS), 'out': rng.choice(R.OUTCOMES + ['ctx'] * 3),
                    'tag': 't%d' % tagn[0]}
        live = set()
        parents = {}     # child -> applications it was embedded in
        nops = rng.randint(8, 24 if tier == 'quick' else 64)
        for n in range(nops):
            r = rng.random()
            dead = [i for i in range(napps) if i not in live]
            if (not live or (r < 0.12 and dead)):
                i = rng.choice(dead) if dead else 0
                op = {'op': 'new_app', 'app': i, 'entries': [entry() for _ in range(rng.randint(0, 3))]}
                if frng.random() < 0.25:
                    op['fail_at'] = frng.randint(0, len(op['entries']))
                    op['fail_kind'] = frng.choice(FAIL_KINDS[:N_CTOR_KINDS])
                else:
                    live.add(i)
                ops.append(op)
                continue
            i = rng.choice(sorted(live))
            idx = rng.choice([None, None, 0, 1, 2, 5, -1, -1, -2, -7])
            if r > 0.94 and len(live) > 2:
                # the program drops its own reference to an application (it may live on inside others) and the collector
                # runs; afterwards an application that embeds it is itself embedded somewhere else
                held = sorted(c for c in live if parents.get(c, set()) & live)
                if held:
                    i = rng.choice(held)
                ops.append({'op': 'forget', 'app': i})
                live.discard(i)
                ps = sorted(parents.get(i, set()) & live)
                if ps:
                    pp = rng.choice(ps)
                    qs = sorted(live - set([pp]))
                    if qs:
                        q = rng.choice(qs)
                        ops.append({'op': 'embed', 'app': q, 'child': pp, 'prefix': rng.choice(['/again', '/v1/']), 'index': None,
                                    'form': rng.choice(['tuple', 'subapp']), 'rebind': False})
                        parents.setdefault(pp, set()).add(q)
                continue
            if r < 0.3:
                ops.append({'op': 'add_route', 'app': i, 'route': rng.randrange(len(routes)), 'index': idx})
            elif r < 0.36:
                ops.append({'op': 'add_tuple', 'app': i, 'entry': entry(), 'index': idx})
            elif r < 0.4:
                # a decorated variant of an endpoint that may already be bound elsewhere: functools.wraps around it,
                # with a signature of its own (it also takes one of THIS application's resources)
                ops.append({'op': 'add_wrapped', 'app': i, 'route': rng.randrange(len(routes)), 'index': idx})
            elif r < 0.55 and len(live) > 1:
                j = rng.choice(sorted(live - set([i])))
                if rng.random() < 0.25:
                    # the SubApplication object is made now and embedded later (the child may change in between)
                    ops.append({'op': 'prepare_sub', 'app': i, 'child': j, 'prefix': rng.choice(['/p', '/pre/', '/sub/deep'])})
                    continue
                ops.append({'op': 'embed', 'app': i, 'child': j, 'prefix': rng.choice(['/p', '/p/', '/sub/deep', '/']),
                            'index': idx, 'form': rng.choice(['tuple', 'subapp', 'prepared', 'prepared']), 'rebind': rng.random() < 0.3})
                parents.setdefault(j, set()).add(i)
            elif r < 0.75:
                ops.append({'op': 'add_fail', 'app': i, 'kind': frng.choice(FAIL_KINDS), 'k': frng.randint(0, 2), 'index': idx,
                            'entries': [entry() for _ in range(3)]})
            else:
                ops.append({'op': 'req', 'app': i, 'path': rng.choice(R.PATHS + ['/p/a', '/p/q', '/sub/deep/a/b']),
                            'method': rng.choice(R.METHODS)})
        return {'world': 'routing-table', 'seed': seed, 'config': {'apps': apps, 'routes': routes}, 'ops': ops}

    # ---- failing entries -----------------------------------------------------
    def failing_entry(self, pool, i, kind, k, entries):
        ep = R.make_endpoint('never', 'ok')
        anyres = sorted(pool.res[i])[0] if pool.res.get(i) else 'nores'
        if kind == 'unresolved':
            return ('/zz', needs_unknown)
        if kind == 'badpattern':
            return ('zz', ep)
        if kind == 'badpattern2':
            return ('/zz//d', ep)
        if kind == 'dupbinding':
            return ('/<x>/<x>', ep)
        if kind == 'conflict-url-res':
            return ('/<%s>' % anyres, ep)
        if kind == 'badmw':
            return Route('/zz', ep, middlewares=[NoNext()])
        if kind == 'badmw-instance':
            return Route('/zz', ep, middlewares=[InstanceHookMW(False)])
        if kind == 'notaroute':
            return 42
        if kind == 'badtuple':
            return ('/zz',)
        if kind == 'route-reserved-resource':
            return Route('/zz', ep, resources={'request': 1})
        if kind == 'bind-raises':
            return type('ExplodingRoute%d' % k, (ExplodingRoute,), {'exc_type': BIND_EXCS[k % len(BIND_EXCS)]})('/zz', ep)
        if kind in ('sub-kth-fails', 'sub-mw-dup', 'sub-kth-cycle', 'sub-kth-raises'):
            if kind == 'sub-mw-dup' and not self.cfg_of(pool, i).get('nr_mw'):
                kind = 'sub-kth-fails'
            if kind == 'sub-kth-cycle' and not self.cfg_of(pool, i).get('cyc_mw'):
                kind = 'sub-kth-raises'
            if kind == 'sub-kth-raises' and not self.cfg_of(pool, i).get('factory'):
                kind = 'sub-kth-cycle' if self.cfg_of(pool, i).get('cyc_mw') else 'sub-kth-fails'
            rts = []
            for n, e in enumerate(entries):
                if n == k and kind == 'sub-kth-fails':
                    rts.append(('/<%s>' % anyres, ep))       # URL binding named like a resource of the parent
                elif n == k and kind == 'sub-kth-cycle':
                    # fine inside the child; a dependency cycle (RuntimeError) with the parent's application-level CycX
                    rts.append(Route('/zz%d' % n, ep, middlewares=[CycY()]))
                elif n == k and kind == 'sub-kth-raises':
                    # fine inside the child (which has no render factory); the PARENT's factory is asked for the renderer
                    # when the route is bound again, and fails with an exception type of the application's choosing
                    xn = sorted(R.FACTORY_EXCS)[(k + len(entries[0]['tag'])) % len(R.FACTORY_EXCS)]
                    rts.append(Route('/zz%d' % n, R.make_endpoint('never', 'ctx'), 'bad-template:' + xn))
                elif n == k:
                    rts.append(Route('/zz%d' % n, ep, middlewares=[NonReorderable()]))   # parent has that unique type already
                else:
                    rts.append(Route(e['pattern'], R.make_endpoint(e['tag'], e['out']), 'tmpl' if e['out'] == 'ctx' else None,
                                     methods=e['methods']))
            inner = Application(rts)
            return SubApplication('/inner', inner) if k % 2 else ('/inner', inner)
        raise InvalidPlan('unknown failure kind %r' % kind)

    @staticmethod
    def cfg_of(pool, i):
        return pool.cfg['apps'][i]

    @staticmethod
    def app_mws(acfg, i):
        return (([NonReorderable()] if acfg.get('nr_mw') else []) + ([StampMW('S%d' % i)] if acfg.get('stamp') else [])
                + ([InstanceHookMW(True)] if acfg.get('insthook') else [])
                + ([CycX()] if acfg.get('cyc_mw') else []))

    # ---- execution ---------------------------------------------------------
    def extra_plans(self, tier, base_seed):
        """The applications clastic ships (StaticApplication, MetaApplication) are Applications like any other: ONE instance
        of each is embedded in two hosts that differ in their routes and in how they render errors; requests go to the
        hosts in a seeded order.  Whatever a host answers is about THAT host."""
        rng = Streams(base_seed)['shipped']
        paths = ['/static/nope.txt', '/static/nope.txt', '/static/common.css', '/_meta/json/', '/_meta/json/', '/_meta/', '/nope', '/static/', '/own', '/denied', '/denied', '/gone', '/inner/denied', '/inner/gone', '/inner/denied']
        for k in range(40 if tier == 'quick' else 400):
            n1 = rng.randint(0, 3)
            n2 = n1 if rng.random() < 0.6 else rng.randint(0, 3)       # (often the same NUMBER of routes, never the same routes)
            seq = [[rng.choice(['h1', 'h2', 'h2', 'alone']), rng.choice(paths)] for _ in range(rng.randint(3, 14))]
            yield {'world': 'routing-table', 'seed': base_seed, 'config': {}, 'ops': [],
                   'shipped': {'extra_routes': [n1, n2], 'seq': seq, 'meta_shared': rng.random() < 0.8, 'static_shared': rng.random() < 0.8}}

    def execute_shipped(self, plan):
        import json
        import clastic.meta as cmeta
        from clastic.errors import ErrorHandler
        from clastic.meta import MetaApplication
        from clastic.static import StaticApplication
        from sim.core.seams import Seams, SimClock
        from sim.core.hoststub import HostStub
        res = RunResult()
        sp = plan['shipped']
        K = 'C11/shipped/'

        def handler(tag):
            class Stamping(ErrorHandler):
                def render_error(self, request, _error, **kwargs):
                    resp = ErrorHandler.render_error(self, request, _error)
                    resp.headers['X-Err-Host'] = tag
                    return resp
            return Stamping()

        stub = HostStub(clock=SimClock())
        with Seams() as sm:
            stub.install(sm, cmeta)
            stub.set_faults({})
            static = StaticApplication(cmeta._ASSET_PATH)
            meta = MetaApplication()
            # ONE Route object bound into both hosts; its endpoint answers with an error object the application made once
            # (`DENIED = Forbidden(...)` at module level), returned or raised
            from clastic.errors import Forbidden, Gone
            denied, gone = Forbidden(detail='members only'), Gone(detail='moved away')

            def ep_gone():
                raise gone
            shared_routes = [Route('/denied', lambda: denied), Route('/gone', ep_gone)]
            # an application of the program's own (its errors stamped 'inner') with the same endpoints, embedded in both hosts
            # and also served on its own
            inner_app = Application([Route('/denied', lambda: denied), Route('/gone', ep_gone)], error_handler=handler('inner'))
            hosts, own = {}, {}
            for i, tag in enumerate(['h1', 'h2']):
                routes = [('/own', (lambda tag=tag: Response('own:' + tag)))]
                routes += [('/%s/r%d/<x>' % (tag, j), (lambda x, tag=tag: Response(tag))) for j in range(sp['extra_routes'][i])]
                s_app = static if sp['static_shared'] or i == 0 else StaticApplication(cmeta._ASSET_PATH)
                m_app = meta if sp['meta_shared'] or i == 0 else MetaApplication()
                hosts[tag] = Application(routes + [('/static/', s_app), ('/_meta/', m_app), ('/inner', inner_app)] + shared_routes, error_handler=handler(tag))
                own[tag] = [r.pattern for r in hosts[tag].routes]
            # the embedded applications are also served on their own (each still is an application in its own right)
            for step, (tag, path) in enumerate(sp['seq']):
                if tag == 'alone' and path.startswith('/inner/'):
                    ex = call_app(inner_app, make_environ('GET', path[len('/inner'):], headers={'Accept': 'text/plain'}), validate=False)
                    res.ev(step, 'inner alone', path, ex.code, ex.header('X-Err-Host'))
                    if ex.code not in (403, 410) or ex.header('X-Err-Host') != 'inner':
                        res.violate(K + 'embedded-application-changed-by-embedding', 'step %d: the inner application served on its own answers %s %s with '
                                    'the error rendering of %r (its own handler stamps "inner")\n%s' % (step, path[len('/inner'):], ex.code, ex.header('X-Err-Host'), sp['seq'][:step + 1]), step)
                        break
                    continue
                if tag == 'alone':
                    app, rel = (static, path[len('/static'):]) if path.startswith('/static/') else (meta, path[len('/_meta'):]) if path.startswith('/_meta/') else (None, None)
                    if app is None:
                        continue
                    ex = call_app(app, make_environ('GET', rel, headers={'Accept': 'text/plain'}), validate=False)
                    res.ev(step, 'alone', rel, ex.code)
                    if ex.header('X-Err-Host') is not None:
                        res.violate(K + 'own-error-rendered-by-a-host', 'step %d: %s served on its own answers %s with the error rendering of host %s\n%s'
                                    % (step, type(app).__name__, ex.code, ex.header('X-Err-Host'), sp['seq'][:step + 1]), step)
                        break
                    continue
                ex = call_app(hosts[tag], make_environ('GET', path, headers={'Accept': 'text/plain'}), validate=False)
                res.ev(step, tag, path, ex.code, ex.header('X-Err-Host'))
                res.nontrivial = True
                res.sigs.add('shipped|%s|%s|%s' % (tag, path, ex.code))
                res.probe('shipped-application-in-two-hosts')
                ctx = 'step %d: GET %s on host %s after %s' % (step, path, tag, sp['seq'][:step])
                if ex.escaped is not None:
                    res.violate(K + 'exception-escaped:%s' % type(ex.escaped).__name__, ctx + ' -> %r' % (ex.escaped,), step)
                    break
                want = {'/static/nope.txt': 404, '/nope': 404, '/static/common.css': 200, '/_meta/': 200, '/_meta/json/': 200, '/own': 200, '/denied': 403, '/gone': 410, '/inner/denied': 403, '/inner/gone': 410}.get(path)
                if want is not None and ex.code != want:
                    res.violate(K + 'status-%s-not-%s' % (ex.code, want), ctx + ' -> %s' % ex.status, step)
                    break
                if ex.code >= 400 and ex.header('X-Err-Host') != tag:
                    res.violate(K + 'error-rendered-by-another-host', ctx + ' -> the %s carries the error rendering of %r' % (ex.code, ex.header('X-Err-Host')), step)
                    break
                if path == '/own' and ex.body != ('own:' + tag).encode():
                    res.violate(K + 'own-route-body', ctx + ' -> %r' % ex.body[:40], step)
                    break
                if path == '/_meta/json/':
                    try:
                        listed = [r['url_pattern'] for r in json.loads(ex.body.decode('utf8'))['app']['routes']]
                    except Exception as e:
                        res.violate(K + 'meta-json-unreadable', ctx + ' -> %r' % (e,), step)
                        break
                    if listed != own[tag]:
                        res.violate(K + 'meta-lists-another-hosts-routes', ctx + ' -> listed %s, the host has %s' % (listed, own[tag]), step)
                        break
        res.steps = len(sp['seq'])
        return res

    def execute(self, plan):
        if plan.get('shipped'):
            return self.execute_shipped(plan)
        res = RunResult()
        cfg = plan['config']
        pool = Pool(cfg)
        K = 'C11/'
        for step, op in enumerate(plan['ops']):
            kind = op['op']
            i = op.get('app')
            if kind != 'new_app' and i not in pool.apps:
                raise InvalidPlan('op on an application that does not exist')
            if kind == 'embed' and op.get('child') not in pool.apps:
                raise InvalidPlan('embedding an application the program no longer holds')
            label = kind
            if kind == 'new_app':
                if i in pool.apps:
                    raise InvalidPlan('application exists')
                pool.res[i] = set(pool.app_resources(i))
                pool.mode[i] = cfg['apps'][i]['mode']
                if pool.mode[i] == 'strict':
                    res.probe('strict-application')
                rts = [Route(e['pattern'], R.make_endpoint(e['tag'], e['out']), 'tmpl' if e['out'] == 'ctx' else None,
                             methods=e['methods']) for e in op['entries']]
                model = [pool.bound_entry(e, i) for e in op['entries']]
                if 'fail_at' in op:
                    bad = self.failing_entry(pool, i, op['fail_kind'], 0, [])
                    rts.insert(op['fail_at'], bad)
                    label = 'new_app_fail:%s@%d' % (op['fail_kind'], op['fail_at'])
                try:
                    app = Application(rts, resources=pool.app_resources(i), slash_mode=pool.mode[i],
                                      middlewares=self.app_mws(cfg['apps'][i], i),
                                      render_factory=R.make_render_factory('F%d' % i) if cfg['apps'][i].get('factory') else None)
                except Exception as e:
                    if 'fail_at' not in op:
                        res.violate(K + 'setup-failed:%s' % type(e).__name__, 'step %d: valid constructor call raised %r' % (step, e), step)
                        break
                    res.fire('ctor_fails:%s' % op['fail_kind'])
                    res.probe('ctor-failed')
                    del pool.res[i], pool.mode[i]
                else:
                    if 'fail_at' in op:
                        res.probe('failing-op-succeeded')      # scenario self-check; not C11's business in itself
                        break
                    pool.apps[i], pool.model[i] = app, model
            elif kind == 'add_wrapped':
                import functools
                inner_ep = pool.route_obj(op['route']).endpoint
                e0 = cfg['routes'][op['route']]
                resname = sorted(pool.res[i])[0]
                src = ('def wrapper(_route, _application, request, %s):\n'
                       '    seen.append(%s)\n'
                       '    return inner(_route, _application, request)\n') % (resname, resname)
                seen = []
                ns = {'inner': inner_ep, 'seen': seen}
                exec(src, ns)
                wrapper = functools.wraps(inner_ep)(ns['wrapper'])
                tagn = 'w%d' % step
                e = dict(e0, tag=e0['tag'], route_res=[], route_mw=False, wrapped=True)
                obj = Route(e['pattern'], wrapper, 'tmpl' if e['out'] == 'ctx' else None, methods=e['methods'])
                try:
                    pool.apps[i].add(obj, index=op['index'])
                except Exception as ex:
                    res.violate(K + 'add-failed:%s' % type(ex).__name__, 'step %d: adding a functools.wraps-decorated endpoint raised %r' % (step, ex), step)
                    break
                self.insert(pool.model[i], [pool.bound_entry(e, i)], op['index'], res)
                res.probe('decorated-variant-of-an-endpoint-bound-elsewhere')
            elif kind in ('add_route', 'add_tuple'):
                if kind == 'add_route':
                    obj = pool.route_obj(op['route'])
                    e = cfg['routes'][op['route']]
                    if sum(1 for m in pool.model.values() for x in m if x['tag'] == e['tag']) >= 1:
                        res.probe('route-bound-twice')
                else:
                    e = op['entry']
                    obj = (e['pattern'], R.make_endpoint(e['tag'], e['out'])) + (('tmpl',) if e['out'] == 'ctx' else ())
                    e = dict(e, methods=None)
                try:
                    pool.apps[i].add(obj, index=op['index'])
                except Exception as ex:
                    res.violate(K + 'add-failed:%s' % type(ex).__name__, 'step %d: valid add raised %r' % (step, ex), step)
                    break
                self.insert(pool.model[i], [pool.bound_entry(e, i)], op['index'], res)
            elif kind == 'prepare_sub':
                j = op['child']
                if j not in pool.apps:
                    raise InvalidPlan('wrapping an application that does not exist')
                pool.prepared = getattr(pool, 'prepared', {})
                pool.prepared[j] = (SubApplication(op['prefix'], pool.apps[j]), op['prefix'], len(pool.model[j]))
            elif kind == 'embed':
                j = op['child']
                if j not in pool.apps:
                    raise InvalidPlan('embedding an application that does not exist')
                prefix = op['prefix'].rstrip('/')
                rebind = bool(op.get('rebind'))
                prepared = getattr(pool, 'prepared', {}).get(j) if op.get('form') == 'prepared' else None
                if prepared is not None:
                    # a SubApplication made earlier: it embeds the child AS IT IS NOW
                    entry, pfx, size_then = prepared
                    prefix = pfx.rstrip('/')
                    rebind = False
                    res.probe('subapplication-object-made-earlier')
                    if size_then != len(pool.model[j]):
                        res.probe('child-changed-after-subapplication-was-made')
                elif rebind:
                    entry = SubApplication(op['prefix'], pool.apps[j], rebind_render=True)
                    res.probe('embed-with-rebind-render')
                else:
                    entry = SubApplication(op['prefix'], pool.apps[j]) if op['form'] == 'subapp' else (op['prefix'], pool.apps[j])
                new = [pool.embedded_entry(x, i, prefix, rebind) for x in pool.model[j]]
                # the one legitimate failure: the parent and a route of the child both carry the unique,
                # non-reorderable middleware type (documented ValueError) -- then nothing may change
                must_fail = bool(cfg['apps'][i].get('nr_mw')) and any(x['nr'] for x in pool.model[j])
                try:
                    pool.apps[i].add(entry, index=op['index'])
                except Exception as ex:
                    if not must_fail:
                        res.violate(K + 'embed-failed:%s' % type(ex).__name__, 'step %d: valid embedding raised %r' % (step, ex), step)
                        break
                    res.fire('op_fails_midway:embed-mw-dup')
                    res.probe('sub-kth-fails-unchanged')
                    label = 'embed_fail:mw-dup@%d' % [x['nr'] for x in pool.model[j]].index(True)
                    new = []
                else:
                    if must_fail:
                        res.probe('failing-op-succeeded')
                        break
                self.insert(pool.model[i], new, op['index'], res)
                res.nontrivial = True
                if any(x['prefix'] for x in pool.model[j]):
                    res.probe('embed-depth-2')
                if any(set(x['chain']) & getattr(pool, 'forgotten', set()) for x in pool.model[j]):
                    res.probe('re-embedded-after-an-inner-application-was-dropped')
                pool.embedded = getattr(pool, 'embedded', set()) | set([j])
            elif kind == 'add_fail':
                bad = self.failing_entry(pool, i, op['kind'], op['k'], op['entries'])
                label = 'add_fail:%s@%d' % (op['kind'], op['k'] if op['kind'].startswith('sub-') else 0)
                try:
                    pool.apps[i].add(bad, index=op['index'])
                except Exception:
                    res.fire('op_fails_midway:%s' % op['kind'])
                    res.probe('sub-kth-fails-unchanged' if op['kind'].startswith('sub-') else 'failed-add-unchanged')
                    if op['kind'] in ('sub-kth-cycle', 'sub-kth-raises') and op['k'] > 0:
                        res.probe('sub-kth-fails-with-other-exception-type')
                    res.nontrivial = True
                else:
                    # not C11's business in itself (scenario self-check); the table must still be what it was -- checked below
                    res.probe('failing-op-succeeded')
            elif kind == 'forget':
                import gc
                embedded_somewhere = i in getattr(pool, 'embedded', ())
                del pool.apps[i], pool.model[i]
                getattr(pool, 'prepared', {}).pop(i, None)
                gc.collect()
                res.probe('application-reference-dropped' + ('-while-embedded' if embedded_somewhere else ''))
                pool.forgotten = getattr(pool, 'forgotten', set()) | set([i])
            elif kind == 'req':
                pass
            else:
                raise InvalidPlan('unknown op %r' % kind)
            if kind in ('add_route', 'add_tuple') and i in getattr(pool, 'embedded', ()):
                res.probe('embedded-then-child-changed')
            res.sigs.add('%s|%d|%s' % (label, len(pool.apps), sorted(len(m) for m in pool.model.values())))
            res.ev(step, label, i, op.get('index'))
            # ---- after EVERY op: every live application against its model -----
            if not self.check_all(pool, res, step, op, label):
                break
            if kind == 'req':
                if not self.probe_one(pool, i, op['path'], op['method'], res, step, label):
                    break
        res.steps = len(plan['ops'])
        return res

    @staticmethod
    def insert(model, new, index, res):
        """The new routes go in CONTIGUOUSLY at the requested index (list.insert meaning of that index: negative counts
        from the end, out of range clamps), the others keep their relative order."""
        if index is None:
            model.extend(new)
        else:
            res.probe('add-at-index')
            pos = index if index >= 0 else max(0, len(model) + index)
            pos = min(pos, len(model))
            if index < 0 and len(new) > 1:
                res.probe('several-routes-added-at-a-negative-index')
            model[pos:pos] = new

    def check_all(self, pool, res, step, op, label):
        K = 'C11/'
        for i in sorted(pool.apps):
            app = pool.apps[i]
            pats = [r.pattern for r in app.routes]
            want = [e['actual'] for e in pool.model[i]]
            if pats != want:
                whose = 'target' if i == op.get('app') else 'other'
                res.violate(K + 'routing-table-differs:%s-app@%s' % (whose, label.split('@')[0]),
                            'step %d after %s: application %d has routes %r, model says %r' % (step, canon(op)[:300], i, pats, want), step)
                return False
            if sorted(app.resources) != sorted(pool.res[i]):
                res.violate(K + 'app-resources-changed@%s' % label.split('@')[0],
                            'step %d after %s: application %d resources %r, expected %r' % (step, canon(op)[:300], i, sorted(app.resources), sorted(pool.res[i])), step)
                return False
            # behaviour: requests derived from the model
            paths = ['/', '/zz/yy/xx']
            for e in pool.model[i][:6]:
                for ex_path in EXAMPLE[e['pattern']][:1]:
                    paths.append(e['prefix'] + ex_path)
            methods = ['GET', ['POST', 'PUT', 'HEAD', 'DELETE'][step % 4]]
            for k, path in enumerate(paths):
                if not self.probe_one(pool, i, path, methods[k % 2] if k else 'GET', res, step, label, whose=('target' if i == op.get('app') else 'other')):
                    return False
        for r, (obj, e, snap) in sorted(pool.routes.items()):
            if Pool.snapshot(obj) != snap:
                res.violate(K + 'unbound-route-mutated@%s' % label.split('@')[0],
                            'step %d after %s: Route %r changed: %r -> %r' % (step, canon(op)[:200], e['tag'], snap, Pool.snapshot(obj)), step)
                return False
        return True

    def probe_one(self, pool, i, path, method, res, step, label, whose='target'):
        K = 'C11/'
        exp = R.dispatch_model(pool.model[i], path, method)
        ex = call_app(pool.apps[i], make_environ(method, path), validate=False)
        got = R.observe(ex)
        bad = R.compare(exp, got)
        if bad is None and exp.get('entry') is not None and exp['tag'] is not None:
            e = exp['entry']
            if got['route_res'] != ','.join(e['res']):
                bad = ('visible-route-resources', 'route sees resources %r, expected %r' % (got['route_res'], ','.join(e['res'])))
            elif got.get('injected') is not None and not e.get('wrapped') and got['injected'] != ','.join(
                    '%s=value-%s-%s' % ((n,) + tuple(n[3:].split('_'))) for n in e['res'] if n in R.PROBED_RESOURCES):
                bad = ('defaulted-resource-parameters', 'endpoint received %r for its defaulted resource parameters, the route has the resources %r'
                       % (got['injected'], e['res']))
            elif got['app_res'] != ','.join(sorted(pool.res[i])):
                bad = ('visible-app-resources', 'application resources %r, expected %r' % (got['app_res'], ','.join(sorted(pool.res[i]))))
            elif e['out'] == 'ctx' and got['rendered_by'] != e['render']:
                bad = ('rendered-by-wrong-factory', 'rendered by %r, expected the renderer of %r (bound through applications %r)'
                       % (got['rendered_by'], e['render'], e['chain']))
            if bad is None and got['status'] == 200 and got.get('route_mark') != e.get('route_mark'):
                bad = ('route-level-middleware-lost', 'response marked %r by the route\'s own middleware, expected %r (bound through %r)'
                       % (got.get('route_mark'), e.get('route_mark'), e['chain']))
            if bad is None and got['status'] == 200 and e.get('route_mark') and len([1 for m in pool.model.values() for x in m if x['tag'] == e['tag']]) > 1:
                res.probe('route-with-own-middleware-bound-twice')
            if bad is None and got['status'] == 200 and got.get('stamp') != e.get('stamp'):
                bad = ('passed-through-wrong-middleware-instance', 'response marked by %r, expected the middleware instance %r of the '
                       'outermost application it is bound through (%r)' % (got.get('stamp'), e.get('stamp'), e['chain']))
            if bad is None and got['status'] == 200 and e.get('stamp') and len([1 for m in pool.model.values() for x in m if x['tag'] == e['tag']]) > 1:
                res.probe('one-route-in-two-applications-with-equal-typed-stacks')
            if e['out'] == 'ctx' and bad is None:
                res.probe('context-rendered-by-factory')
        if bad:
            res.violate(K + 'behaviour-differs:%s:%s-app@%s' % (bad[0], whose, label.split('@')[0]),
                        'step %d after %s: application %d answers %s %s: %s\n model table: %s'
                        % (step, label, i, method, path, bad[1], [(e['actual'], e['methods'], e['out'], e['tag']) for e in pool.model[i]]), step)
            return False
        return True


CHECK = C11()
