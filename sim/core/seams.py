"""Seams: module globals of clastic (and of its dependencies) replaced from
outside for the duration of one run.  A seam that cannot be installed is a
HarnessError, never a silent no-op."""
import datetime as _real_datetime
import time as _real_time

from .base import HarnessError

EPOCH = 1700000000.0  # 2023-11-14T22:13:20Z, start of simulated time


class Seams(object):
    def __init__(self):
        self._undo = []

    def patch(self, module, name, value):
        if not hasattr(module, name):
            raise HarnessError('seam missing: %s.%s' % (getattr(module, '__name__', module), name))
        self._undo.append((module, name, getattr(module, name)))
        setattr(module, name, value)

    def restore(self):
        while self._undo:
            module, name, old = self._undo.pop()
            setattr(module, name, old)

    def __enter__(self):
        return self

    def __exit__(self, *a):
        self.restore()
        return False


class SimClock(object):
    """Simulated wall clock.  Advances only when the plan says so; each read
    may add a planned jitter (list of deltas consumed per read, then 0)."""

    def __init__(self, start=EPOCH):
        self.now = float(start)
        self.start = float(start)
        self.reads = 0
        self.jitter = []       # deltas applied *before* successive reads
        self.max_seen = self.now

    def read(self):
        self.reads += 1
        if self.jitter:
            self.now += self.jitter.pop(0)
        if self.now > self.max_seen:
            self.max_seen = self.now
        return self.now

    def advance(self, dt):
        self.now += dt
        if self.now > self.max_seen:
            self.max_seen = self.now

    @property
    def covered(self):
        return self.max_seen - self.start


class TimeProxy(object):
    """Stands in for the ``time`` module *and* for ``time.time`` itself
    (``from time import time`` in secure_cookie)."""

    def __init__(self, clock):
        self._clock = clock

    def time(self):
        return self._clock.read()

    def __call__(self):
        return self._clock.read()

    def sleep(self, s):
        self._clock.advance(s)

    def __getattr__(self, name):
        return getattr(_real_time, name)


def make_datetime_proxy(clock, local_zone=False):
    """A stand-in for the ``datetime`` module whose ``datetime.utcnow/now``
    read the simulated clock.  local_zone: naive local-time conversions use the
    process time zone (which the caller has pinned via TZ + tzset) instead of UTC."""

    class SimDateTime(_real_datetime.datetime):
        @classmethod
        def utcnow(cls):
            return cls.utcfromtimestamp(clock.read())

        @classmethod
        def now(cls, tz=None):
            if tz is None and not local_zone:
                return cls.utcfromtimestamp(clock.read())  # TZ-independent on purpose
            return cls.fromtimestamp(clock.read(), tz)

        @classmethod
        def fromtimestamp(cls, ts, tz=None):
            if tz is None and not local_zone:
                return cls.utcfromtimestamp(ts)  # TZ-independent on purpose
            return super(SimDateTime, cls).fromtimestamp(ts, tz)

    class DateTimeModuleProxy(object):
        datetime = SimDateTime

        def __getattr__(self, name):
            return getattr(_real_datetime, name)

    return DateTimeModuleProxy(), SimDateTime


class WarningsEscalated(object):
    """The process was started with warnings of some categories turned into errors (-W error::UserWarning, a test runner's
    filterwarnings = error): inside the block warnings.warn() of these categories raises.  DeprecationWarning and
    SyntaxWarning are deliberately not offered: the pinned tree itself uses deprecated standard-library calls on 3.12."""
    CATEGORIES = {'UserWarning': UserWarning, 'RuntimeWarning': RuntimeWarning, 'ResourceWarning': ResourceWarning,
                  'UnicodeWarning': UnicodeWarning, 'BytesWarning': BytesWarning, 'FutureWarning': FutureWarning}

    def __init__(self, names):
        self.names = [n for n in (names or []) if n]
        self.cm = None

    def __enter__(self):
        import warnings
        self.cm = warnings.catch_warnings()
        self.cm.__enter__()
        warnings.simplefilter('ignore')
        for n in self.names:
            warnings.simplefilter('error', self.CATEGORIES[n])
        return self

    def __exit__(self, *a):
        return self.cm.__exit__(*a)
