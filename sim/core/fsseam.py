"""Filesystem seam for clastic.static: counts every filesystem call of a
request, injects faults by call index, keeps an open/close ledger.

The kernel and the scratch tree are real; only failure and timing are simulated.
Faults (per request, keyed by 1-based call index n):
  {'call': n, 'kind': 'oserror', 'errno': E}   getmtime/getsize/open/read raise OSError(E)
                                               (isfile answers False: os.path.isfile never raises)
  {'call': n, 'kind': 'vanish'}                the file named by call n is unlinked just before it
  {'call': n, 'kind': 'appear'}                the planned ghost file is created just before call n
"""
import builtins
import errno as _errno
import os
import os.path as _osp

_REAL_OPEN = builtins.open
_REAL_ISFILE = _osp.isfile
_REAL_GETMTIME = _osp.getmtime
_REAL_GETSIZE = _osp.getsize


class FileProxy(object):
    def __init__(self, f, path, seam):
        self._f = f
        self._path = path
        self._seam = seam
        self.closed_by_app = False

    def read(self, *a):
        self._seam._call('read', self._path)
        return self._f.read(*a)

    def close(self):
        self.closed_by_app = True
        return self._f.close()

    @property
    def closed(self):
        return self._f.closed

    def __iter__(self):
        return iter(self._f)

    def __enter__(self):
        return self

    def __exit__(self, *a):
        self.close()

    def __getattr__(self, k):
        return getattr(self._f, k)


class _PathProxy(object):
    def __init__(self, seam):
        self._seam = seam

    def getmtime(self, p):
        self._seam._call('getmtime', p)
        return _REAL_GETMTIME(p)

    def getsize(self, p):
        self._seam._call('getsize', p)
        return _REAL_GETSIZE(p)

    def isfile(self, p):
        return self._seam.isfile(p)

    def __getattr__(self, k):
        return getattr(_osp, k)


class _OSProxy(object):
    def __init__(self, seam):
        self.path = _PathProxy(seam)

    def __getattr__(self, k):
        return getattr(os, k)


class FsSeam(object):
    def __init__(self):
        self.os = _OSProxy(self)
        self.calls = []        # [(name, path)] of the current request
        self.faults = {}
        self.fired = []        # [(kind, call name, path)]
        self.ledger = []       # FileProxy objects opened in the current request
        self.on_vanish = None  # callback(path)
        self.on_appear = None  # callback()

    def install(self, seams, static_module):
        seams.patch(static_module, 'isfile', self.isfile)
        seams.patch(static_module, 'os', self.os)
        had = 'open' in static_module.__dict__
        if had:
            seams.patch(static_module, 'open', self.open)
        else:
            static_module.open = self.open
            seams._undo.append((_Deleter(static_module), 'open', None))

    def begin(self, faults=()):
        self.calls = []
        self.fired = []
        self.ledger = []
        self.faults = dict((int(f['call']), f) for f in faults)

    def _call(self, name, path):
        self.calls.append((name, path))
        f = self.faults.get(len(self.calls))
        if f is None:
            return False
        kind = f['kind']
        if kind == 'vanish':
            if self.on_vanish is not None and self.on_vanish(path):
                self.fired.append(('vanish', name, path))
            return False
        if kind == 'appear':
            if self.on_appear is not None and self.on_appear():
                self.fired.append(('appear', name, path))
            return False
        if kind == 'oserror':
            self.fired.append(('oserror:%s' % _errno.errorcode.get(f['errno'], f['errno']), name, path))
            if name == 'isfile':
                return True
            raise OSError(f['errno'], 'injected ' + os.strerror(f['errno']), path)
        return False

    def isfile(self, p):
        if self._call('isfile', p):
            return False
        return _REAL_ISFILE(p)

    def open(self, p, mode='r', *a, **kw):
        self._call('open', p)
        fp = FileProxy(_REAL_OPEN(p, mode, *a, **kw), p, self)
        self.ledger.append(fp)
        return fp

    def open_handles(self):
        return [fp._path for fp in self.ledger if not fp.closed]


class _Deleter(object):
    """Undo entry that removes a module global the seam added."""

    def __init__(self, module):
        object.__setattr__(self, '_m', module)

    def __setattr__(self, name, value):
        self._m.__dict__.pop(name, None)
