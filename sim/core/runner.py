"""Batch runner: seeded search over plans on all cores, determinism gate,
minimisation, replay files, known-findings, evidence."""
import concurrent.futures as cf
import faulthandler
import hashlib
import importlib
import json
import multiprocessing
import os
import subprocess
import sys
import time
import traceback

from .base import HarnessError, InvalidPlan, canon, run_seed
from . import minimise as _min


def _safe_print(*args, **kw):
    """The simulator's own output never fails on a stream that only takes ASCII (interpreter flag 'A')."""
    import builtins
    import sys as _sys
    enc = (getattr(kw.get('file') or _sys.stdout, 'encoding', None) or 'utf-8').lower()
    if enc.replace('-', '').replace('_', '') in ('ascii', 'usascii', 'ansix3.41968', '646'):
        args = [str(a).encode('ascii', 'backslashreplace').decode('ascii') for a in args]
    builtins.print(*args, **kw)


print = _safe_print


VERIF = os.path.dirname(os.path.dirname(os.path.dirname(os.path.abspath(__file__))))
REPO = os.path.abspath(os.environ.get('VERIF_REPO', '/repo'))
DEFAULT_SEED = 20261001
RUN_WALL_LIMIT = 60          # seconds per single run before the worker is killed
_CHECKS = {}


def load_check(pid):
    pid = pid.upper()
    if pid not in _CHECKS:
        mod = importlib.import_module('sim.props.' + pid.lower())
        chk = mod.CHECK
        chk.setup()
        _CHECKS[pid] = chk
    return _CHECKS[pid]


def tree_sha():
    """sha over clastic's python sources in the tree under test."""
    h = hashlib.sha256()
    root = os.path.join(REPO, 'clastic')
    for dp, dns, fns in sorted(os.walk(root)):
        dns.sort()
        if 'tests' in dp.split(os.sep):
            continue
        for fn in sorted(fns):
            if fn.endswith('.py'):
                p = os.path.join(dp, fn)
                h.update(p[len(root):].encode())
                with open(p, 'rb') as f:
                    h.update(f.read())
    return h.hexdigest()[:16]


# ---------------------------------------------------------------------------
# worker side

_EXTRA_CACHE = {}


def _plan_for(check, job, tier, base_seed):
    kind, i = job
    if kind == 'gen':
        return check.generate(run_seed(base_seed, i), tier)
    key = (check.id, tier, base_seed)
    if key not in _EXTRA_CACHE:
        _EXTRA_CACHE.clear()
        _EXTRA_CACHE[key] = list(check.extra_plans(tier, base_seed))
    return _EXTRA_CACHE[key][i]


def execute_guarded(check, plan):
    faulthandler.dump_traceback_later(RUN_WALL_LIMIT, exit=True)
    try:
        return check.execute(plan)
    finally:
        faulthandler.cancel_dump_traceback_later()


def _in_child(fn, args):
    """Run fn(args) in a forked child of this worker and return its result
    (used for minimisation, so that hundreds of candidate executions cannot
    leave state behind in a worker)."""
    import pickle
    r, w = os.pipe()
    pid = os.fork()
    if pid == 0:
        code = 0
        try:
            os.close(r)
            try:
                data = pickle.dumps(('ok', fn(args)))
            except BaseException:
                data = pickle.dumps(('err', traceback.format_exc()[-4000:]))
            with os.fdopen(w, 'wb') as f:
                f.write(data)
        except BaseException:
            code = 3
        finally:
            os._exit(code)
    os.close(w)
    with os.fdopen(r, 'rb') as f:
        data = f.read()
    _, status = os.waitpid(pid, 0)
    if not data:
        raise RuntimeError('child of worker died (status %r): run wall limit exceeded or crash' % status)
    kind, val = pickle.loads(data)
    if kind == 'err':
        raise RuntimeError('exception in child of worker:\n' + val)
    return val


_HISTORY = []   # every job this worker process has executed so far, in order


def _worker_chunk(args):
    # no fork per chunk: in this VM copy-on-write faults of short-lived children cost far more than
    # the runs themselves.  Instead the worker remembers its complete job history, which is what a
    # replay needs if a violation depends on state the tree under test carries between runs.
    return _chunk_body(args)


def _chunk_body(args):
    pid, tier, base_seed, jobs, gate_jobs = args
    check = load_check(pid)
    out = {'evaluations': 0, 'sigs': set(), 'fired': {}, 'probes': {}, 'sim_time': 0.0, 'steps': 0,
           'samples': [], 'violations': [], 'digests': {}, 'harness_errors': [], 'inter': set(),
           'nontrivial': 0, 'extra': {}}
    gate = set(gate_jobs)
    for job in jobs:
        try:
            plan = _plan_for(check, job, tier, base_seed)
            _HISTORY.append([list(job), plan])
            if len(_HISTORY) > 6000 and _HISTORY[-6001][1] is not None:
                # bound the memory of a long-lived worker: older entries keep their job only (regenerated on replay)
                _HISTORY[-6001][1] = None
            res = execute_guarded(check, plan)
        except Exception:
            out['harness_errors'].append({'job': job, 'trace': traceback.format_exc()[-3000:]})
            if len(out['harness_errors']) > 3:
                break
            continue
        out['evaluations'] += 1
        if res.nontrivial:
            out['nontrivial'] += 1
            for sg in (res.sigs or [res.signature]):
                out['sigs'].add(hashlib.sha1(sg.encode()).hexdigest()[:12])
        for k, v in res.fired.items():
            out['fired'][k] = out['fired'].get(k, 0) + v
        for k, v in res.probes.items():
            out['probes'][k] = out['probes'].get(k, 0) + v
        for k, v in res.extra.items():
            if isinstance(v, (int, float)):
                out['extra'][k] = out['extra'].get(k, 0) + v
        if 'interleaving' in res.extra:
            out['inter'].add(res.extra['interleaving'])
        out['sim_time'] += res.sim_time
        out['steps'] += res.steps
        if len(out['samples']) < 1:
            out['samples'].append(check.sample_of(plan))
        if job in gate:
            out['digests'][canon(job)] = res.digest
            out.setdefault('logs', {})[canon(job)] = [str(x)[:300] for x in res.log[:60]]
        if res.violations and len(out['violations']) < 4:
            keys = set(v['violation']['key'] for v in out['violations'])
            v0 = res.violations[0]
            if v0.key not in keys:
                out['violations'].append({'job': job, 'plan': plan, 'violation': v0.to_json(),
                                          'digest': res.digest, 'prelude': list(_HISTORY[:-1])})
    out['sigs'] = sorted(out['sigs'])
    out['inter'] = sorted(out['inter'])
    return out


def _worker_minimise(args):
    return _in_child(_minimise_body, args)


def _minimise_body(args):
    pid, plan, key, budget = args
    check = load_check(pid)
    return _min.minimise(check, plan, key, budget)


def _pool(nproc):
    ctx = multiprocessing.get_context('fork')
    return cf.ProcessPoolExecutor(max_workers=nproc, mp_context=ctx)


# ---------------------------------------------------------------------------
# known findings

def load_findings(path=None):
    path = path or os.path.join(VERIF, 'KNOWN_FINDINGS.txt')
    found = []
    if not os.path.exists(path):
        return found
    with open(path) as f:
        for line in f:
            line = line.strip()
            if not line.startswith('finding:'):
                continue
            parts = line[len('finding:'):].split(None, 2)
            try:
                prop = parts[0].split('=', 1)[1]
                key = parts[1].split('=', 1)[1]
                desc = parts[2] if len(parts) > 2 else ''
            except Exception:
                raise HarnessError('unparsable KNOWN_FINDINGS line: %r' % line)
            found.append((prop, key, desc))
    return found


# ---------------------------------------------------------------------------
# replay

def _interp_flags():
    flags = ('O' if sys.flags.optimize else '') + ('A' if (os.environ.get('PYTHONIOENCODING') or '').lower().startswith('ascii') else '')
    return (':' + flags) if flags else ''


def write_replay(check, plan, violation, digest, meta):
    os.makedirs(os.path.join(VERIF, 'replays'), exist_ok=True)
    kh = hashlib.sha1(violation['key'].encode()).hexdigest()[:8]
    path = os.path.join(VERIF, 'replays', '%s-%s-%s.json' % (check.id, kh, plan.get('seed', 'x')))
    doc = {'format': 1, 'property': check.id, 'world': check.world, 'seed': plan.get('seed'),
           'hashseed': os.environ.get('PYTHONHASHSEED', '') + _interp_flags(), 'plan': plan, 'violation': violation,
           'digest': digest, 'clastic_tree_sha': tree_sha()}
    doc.update(meta)
    with open(path, 'w') as f:
        json.dump(doc, f, indent=1, sort_keys=True)
    return path


def replay_file(path, quiet=False, record=False):
    """Re-execute a replay file in *this* (fresh) interpreter.  Exit status:
    1 reproduced (same key and digest), 2 did not reproduce.  With record=True
    the digest of this fresh execution is written into the file first (used
    once, when the file is created: the digest of record is always one obtained
    in a fresh interpreter, never in a long-lived worker)."""
    with open(path) as f:
        doc = json.load(f)
    check = load_check(doc['property'])
    pre = doc.get('prelude')
    if pre:
        # history needed: the runs that preceded this one in its worker process, as executed there (their plans;
        # older files name them by job and regenerate them)
        # (the parent of the worker pool had listed the structured plans once before forking: calibration runs included)
        try:
            list(check.extra_plans(pre['tier'], pre['base_seed']))
        except Exception:
            pass
        for job, plan in pre.get('plans') or [[job, None] for job in pre.get('jobs', [])]:
            try:
                # generating a plan may itself touch process-wide state (calibration requests): do that again, too,
                # but execute the plan AS IT WAS executed in the worker
                regenerated = _plan_for(check, (job[0], job[1]), pre['tier'], pre['base_seed'])
                execute_guarded(check, plan if plan is not None else regenerated)
            except Exception:
                pass
        if doc.get('job'):
            try:
                _plan_for(check, tuple(doc['job'][:2]), pre['tier'], pre['base_seed'])
            except Exception:
                pass
    res = execute_guarded(check, doc['plan'])
    keys = [v.key for v in res.violations]
    want = doc['violation']['key']
    if record and want in keys[:1]:
        doc['digest'] = res.digest
        doc['violation'] = res.violations[0].to_json()
        with open(path, 'w') as f:
            json.dump(doc, f, indent=1, sort_keys=True)
    if want in keys[:1] and res.digest == doc['digest']:
        print('REPRODUCED property=%s key=%s digest=%s' % (doc['property'], want, res.digest[:16]))
        if not quiet:
            print('  message: %s' % res.violations[0].message[:1500])
            print('VIOLATION property=%s replay=%s' % (doc['property'], path))
        return 1
    print('HARNESS-ERROR replay did not reproduce: want key=%s digest=%s; got keys=%r digest=%s'
          % (want, str(doc['digest'])[:16], keys[:3], res.digest[:16]))
    return 2


def _child_env(hashseed):
    """Environment for a fresh simcheck process: stage 1 must run again (own bytecode cache, own hash seed)."""
    env = dict(os.environ)
    for k in ('SIM_STAGE', 'PYTHONHASHSEED', 'PYTHONPYCACHEPREFIX'):
        env.pop(k, None)
    env['SIM_HASHSEED'] = str(hashseed)
    return env


def _replay_fresh(path, hashseed, record=False):
    env = _child_env(hashseed)
    cmd = [os.path.join(VERIF, 'bin', 'simcheck'), 'replay', path, '--quiet']
    if record:
        cmd.append('--record')
    p = subprocess.run(cmd, env=env, capture_output=True, text=True, timeout=300)
    return p.returncode, (p.stdout + p.stderr)[-1500:]


def _confirm(path, hashseed):
    """record the fresh-interpreter digest, then replay once more and demand the same."""
    rc, outp = _replay_fresh(path, hashseed, record=True)
    if rc == 1:
        rc, outp = _replay_fresh(path, hashseed)
    return rc, outp


# ---------------------------------------------------------------------------
# the check itself

def run_check(pid, tier, base_seed, nproc=None, max_runs=None, write_evidence=True):
    t0 = time.time()
    check = load_check(pid)
    nproc = nproc or min(16, os.cpu_count() or 1)
    print('clastic-sim property=%s tier=%s VERIF_SEED=%d PYTHONHASHSEED=%s repo=%s tree=%s'
          % (check.id, tier, base_seed, os.environ.get('PYTHONHASHSEED'), REPO, tree_sha()))
    sys.stdout.flush()
    n = check.n_runs(tier)
    if max_runs:
        n = min(n, max_runs)
    jobs = [('gen', i) for i in range(n)]
    # (made once, here: the pool workers are forked from this process and inherit the list)
    _EXTRA_CACHE.clear()
    _EXTRA_CACHE[(check.id, tier, base_seed)] = list(check.extra_plans(tier, base_seed))
    n_extra = len(_EXTRA_CACHE[(check.id, tier, base_seed)])
    jobs += [('extra', j) for j in range(n_extra)]
    gate_every = max(1, len(jobs) // max(8, len(jobs) // 50))
    gate_jobs = [j for k, j in enumerate(jobs) if k % gate_every == 0]

    # other-hash-seed digests in a fresh interpreter, concurrently with the pool
    hs_n = getattr(check, 'hashseed_sample', {'quick': 24, 'thorough': 96})[tier]
    if hs_n <= len(gate_jobs):
        hs_jobs = gate_jobs[:hs_n]
    else:
        step = max(1, len(jobs) // hs_n)
        hs_jobs = jobs[::step][:hs_n]
    hs_seeds = getattr(check, 'hashseeds', {'quick': ['1:OA'], 'thorough': ['1:OA', 2]})[tier]
    hs_procs = []
    for hs in hs_seeds:
        env = _child_env(hs)
        hs_procs.append((hs, subprocess.Popen(
            [os.path.join(VERIF, 'bin', 'simcheck'), 'digests', '--property', check.id, '--tier', tier,
             '--seed', str(base_seed), '--jobs', json.dumps(hs_jobs)],
            env=env, stdout=subprocess.PIPE, stderr=subprocess.PIPE, text=True)))

    nchunks = max(1, min(len(jobs), nproc * 6))
    chunks = [jobs[i::nchunks] for i in range(nchunks)]
    agg = {'evaluations': 0, 'sigs': set(), 'fired': {}, 'probes': {}, 'sim_time': 0.0, 'steps': 0,
           'samples': [], 'violations': [], 'digests': {}, 'harness_errors': [], 'inter': set(),
           'nontrivial': 0, 'extra': {}}
    harness_msgs = []
    notes = []
    gate_mismatch = []
    gate_reruns = 0
    gset = set(gate_jobs) | set(tuple(j) for j in hs_jobs)
    try:
        with _pool(nproc) as pool:
            futs = [pool.submit(_worker_chunk, (check.id, tier, base_seed, ch, [j for j in ch if j in gset]))
                    for ch in chunks]
            # determinism gate: same jobs again, in (most likely) another worker, another order
            gfut = [pool.submit(_worker_chunk, (check.id, tier, base_seed, list(reversed(gate_jobs[k::4])),
                                                gate_jobs[k::4])) for k in range(4)]
            for f in futs:
                r = f.result(timeout=7200)
                agg['evaluations'] += r['evaluations']
                agg['nontrivial'] += r['nontrivial']
                agg['sigs'].update(r['sigs'])
                agg['inter'].update(r['inter'])
                for k in ('fired', 'probes', 'extra'):
                    for kk, v in r[k].items():
                        agg[k][kk] = agg[k].get(kk, 0) + v
                agg['sim_time'] += r['sim_time']
                agg['steps'] += r['steps']
                if len(agg['samples']) < 3:
                    agg['samples'].extend(r['samples'][:1])
                agg['violations'].extend(r['violations'])
                agg['digests'].update(r['digests'])
                agg.setdefault('logs', {}).update(r.get('logs', {}))
                agg['harness_errors'].extend(r['harness_errors'])
            for f in gfut:
                r = f.result(timeout=7200)
                agg['harness_errors'].extend(r['harness_errors'])
                for k, d in r['digests'].items():
                    gate_reruns += 1
                    if agg['digests'].get(k) != d:
                        gate_mismatch.append(k)
                        if len(gate_mismatch) <= 2:
                            # show where the two executions of one plan part (diagnosis of the simulator itself)
                            la, lb = agg.get('logs', {}).get(k, []), r.get('logs', {}).get(k, [])
                            for x, y in zip(la + ['<end>'], lb + ['<end>']):
                                if x != y:
                                    notes.append('gate mismatch %s: first differing event\n    run A: %s\n    run B: %s' % (k, x, y))
                                    break

            # other hash seeds
            hs_checked = 0
            hs_violations = []
            for hs, p in hs_procs:
                try:
                    so, se = p.communicate(timeout=1800)
                except subprocess.TimeoutExpired:
                    p.kill()
                    harness_msgs.append('hashseed %s digest run timed out' % hs)
                    continue
                if p.returncode != 0:
                    harness_msgs.append('hashseed %s digest run failed: %s' % (hs, (so + se)[-800:]))
                    continue
                other = json.loads(so.strip().splitlines()[-1])
                for k, rec in other.items():
                    hs_checked += 1
                    if rec.get('violation') and agg['digests'].get(k) != rec['digest']:
                        # the property is quantified over the hash seed too: a violation that shows only under
                        # another PYTHONHASHSEED is a violation, replayed under that seed
                        hs_violations.append({'job': json.loads(k), 'plan': rec['plan'], 'violation': rec['violation'],
                                              'digest': rec['digest'], 'prelude': [], 'hashseed': str(hs)})
                    elif agg['digests'].get(k) != rec['digest']:
                        gate_mismatch.append('hashseed%s:%s' % (hs, k))

            if os.environ.get('SIM_DEBUG'):
                print('DEBUG hs_checked=%d hs_violations=%d gate_mismatch=%d hs_jobs=%d' % (hs_checked, len(hs_violations), len(gate_mismatch), len(hs_jobs)))
            # violations -> minimise, replay files
            findings = [(p, k, d) for (p, k, d) in load_findings() if p == check.id]
            by_key = {}
            for v in agg['violations'] + hs_violations:
                by_key.setdefault(v['violation']['key'], v)
            reported = []
            known_hit = []
            budget = 40 if tier == 'quick' else 120
            todo = sorted(by_key.items())[:6]
            mfuts = [(key, v, pool.submit(_worker_minimise, (check.id, v['plan'], key, budget)) if not v.get('hashseed') else None)
                     for key, v in todo]
            for key, v, mf in mfuts:
                hseed = v.get('hashseed') or os.environ.get('PYTHONHASHSEED', '0')
                try:
                    if mf is None:
                        raise RuntimeError('found under PYTHONHASHSEED=%s: not minimised in this interpreter' % hseed)
                    mplan, mviol, mdigest, mstats = mf.result(timeout=budget * 4 + 120)
                except Exception as e:
                    notes.append('minimiser could not reproduce %s in isolation: %s' % (key, str(e)[-200:]))
                    mplan, mviol, mdigest, mstats = v['plan'], v['violation'], v['digest'], {'error': repr(e)}
                path = write_replay(check, mplan, mviol, mdigest,
                                    {'minimised': mstats, 'tier': tier, 'job': v['job'], 'hashseed': hseed})
                rc, outp = _confirm(path, hseed)
                if rc != 1:
                    # fall back to the unminimised plan
                    path = write_replay(check, v['plan'], v['violation'], v['digest'],
                                        {'minimised': {'fallback': True}, 'tier': tier, 'job': v['job'], 'hashseed': hseed})
                    rc, outp = _confirm(path, hseed)
                if rc != 1 and v.get('prelude'):
                    # the violation needs state left behind by earlier runs of the same chunk
                    path = write_replay(check, v['plan'], v['violation'], v['digest'],
                                        {'minimised': {'fallback': 'with-prelude'}, 'tier': tier, 'job': v['job'], 'hashseed': hseed,
                                         'prelude': {'plans': v['prelude'], 'tier': tier, 'base_seed': base_seed}})
                    rc, outp = _confirm(path, hseed)
                    if rc == 1:
                        notes.append('violation %s reproduces only after the %d runs that preceded it in its worker process '
                                     '(state carried between runs by the tree under test); replay includes them'
                                     % (key, len(v['prelude'])))
                if rc != 1:
                    harness_msgs.append('replay of %s does not reproduce in a fresh interpreter: %s' % (path, outp))
                    continue
                match = [d for (p, k, d) in findings if k == key]
                if match:
                    known_hit.append((key, match[0], path))
                else:
                    reported.append((key, mviol, path))
    except cf.process.BrokenProcessPool as e:
        harness_msgs.append('worker died (timeout or crash): %r' % (e,))
        reported, known_hit, hs_checked, hs_violations = [], [], 0, []
    for he in agg['harness_errors'][:3]:
        harness_msgs.append('exception in generator/executor job=%r:\n%s' % (he['job'], he['trace']))
    if gate_mismatch:
        msg = 'determinism gate: %d digest mismatches, e.g. %r' % (len(gate_mismatch), gate_mismatch[:3])
        if reported and not harness_msgs:
            # violations confirmed twice in fresh interpreters: the tree under test keeps state across
            # runs (e.g. a process-global cache), which makes runs order-dependent; that is the tree's
            # doing, and the violations stand on their replays.
            notes.append(msg + ' (the tree under test carries state from one run to the next)')
        else:
            harness_msgs.append(msg)
    missing = [p for p in check.required_probes if not agg['probes'].get(p)]
    if missing and tier == 'thorough' and not max_runs:
        harness_msgs.append('probes never hit (workload must change): %r' % missing)
    elif missing:
        print('note: probes not hit at this tier/run count: %r' % missing)
    tripped = [p for p in getattr(check, 'forbidden_probes', ()) if agg['probes'].get(p)]
    if tripped and not reported and not known_hit:
        # the harness's own expectations about its scenario did not come true, and no violation explains it
        harness_msgs.append('scenario self-checks tripped: %r' % dict((p, agg['probes'][p]) for p in tripped))

    wall = time.time() - t0
    if write_evidence:
        _write_evidence(check, tier, base_seed, agg, wall, reported, known_hit, gate_reruns,
                        len(gate_mismatch), hs_seeds, hs_checked, n, n_extra, nproc)
    for key, desc, path in known_hit:
        print('KNOWN-FINDING: property=%s %s [key=%s replay=%s]' % (check.id, desc, key, path))
    for key, viol, path in reported:
        print('  key=%s' % key)
        print('  %s' % viol['message'][:1200].replace('\n', '\n  '))
        print('VIOLATION property=%s replay=%s' % (check.id, path))
    print('%s: runs=%d (+%d sweep) nontrivial=%d distinct=%d wall=%.1fs faults_fired=%d (%d kinds)'
          % (check.id, n, n_extra, agg['nontrivial'], len(agg['sigs']), wall,
             sum(agg['fired'].values()), len(agg['fired'])))
    for m in notes:
        print('NOTE %s' % m)
    if harness_msgs:
        for m in harness_msgs:
            print('HARNESS-ERROR %s' % m)
        return 2
    if reported:
        return 1
    print('OK property=%s held on everything explored' % check.id)
    return 0


def _write_evidence(check, tier, base_seed, agg, wall, reported, known_hit, gate_reruns, gate_mismatch,
                    hs_seeds, hs_checked, n, n_extra, nproc):
    ev = agg['evaluations']
    cov = {
        'evaluations': ev,
        'distinct_nontrivial': len(agg['sigs']),
        'rule': check.rule,
        'samples': agg['samples'][:3],
        'exhaustive': False,
        'seeds': {'base': base_seed, 'generated_runs': n, 'structured_sweep_runs': n_extra,
                  'run_seed': 'VERIF_SEED*2^20 + index'},
        'nontrivial_runs': agg['nontrivial'],
        'runs_per_hour': int(ev / wall * 3600) if wall > 0 else 0,
        'workers': nproc,
        'sim_time_s': round(agg['sim_time'], 3),
        'steps': agg['steps'],
        'faults_injected': dict(sorted(agg['fired'].items())),
        'probes': dict(sorted(agg['probes'].items())),
        'components': check.components,
        'hashseeds': {'main': os.environ.get('PYTHONHASHSEED'), 'others': hs_seeds,
                      'digests_compared': hs_checked},
        'determinism_gate': {'reruns': gate_reruns, 'mismatches': gate_mismatch},
        'known_findings_hit': [k for k, _, _ in known_hit],
        'violation_keys': [k for k, _, _ in reported],
        'clastic_tree_sha': tree_sha(),
    }
    if agg['inter']:
        cov['distinct_interleavings'] = len(agg['inter'])
        cov['interleaving_measure'] = 'distinct sequences of (step-free) (from-thread, to-thread, code location) at switch points'
    for k, v in agg['extra'].items():
        cov[k] = v
    doc = {'property_id': check.id, 'tier': tier, 'seed': base_seed, 'level': check.level,
           'coverage': cov, 'assumptions': list(check.assumptions), 'wall_s': round(wall, 2),
           'violations': len(reported)}
    os.makedirs(os.path.join(VERIF, 'evidence'), exist_ok=True)
    path = os.path.join(VERIF, 'evidence', '%s.json' % check.id)
    tmp = path + '.tmp'
    with open(tmp, 'w') as f:
        json.dump(doc, f, indent=1, sort_keys=True, default=repr)
    os.replace(tmp, path)


def digests_cmd(pid, tier, base_seed, jobs):
    check = load_check(pid)
    out = {}
    for job in jobs:
        job = (job[0], job[1])
        plan = _plan_for(check, job, tier, base_seed)
        res = execute_guarded(check, plan)
        out[canon(job)] = {'digest': res.digest,
                           'violation': res.violations[0].to_json() if res.violations else None,
                           'plan': plan if res.violations else None}
    print(json.dumps(out))
    return 0
