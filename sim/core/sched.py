"""Baton-passing thread scheduler driven by an explicit schedule.

Real threads, simulated choice: a thread runs only while it holds the baton;
the only place it can lose it is a yield point, i.e. a ``sys.monitoring``
LINE or INSTRUCTION event inside watched code (clastic, sinter-generated
chains, harness application code).  Which yield point hands the baton to whom
is written in the plan:

    order:    [thread names]  priority order (start, and who runs after a finish)
    preempts: [[step, target]] at global yield-point number *step* switch to
              thread *target* (no-op if it is not alive / is the runner), or
              target == "demote": PCT-style, the runner gets the lowest
              priority and the highest-priority other live thread runs.

No PRNG, no clock: replaying a schedule reproduces the interleaving exactly.
"""
import os
import sys
import threading

from .base import HarnessError

mon = sys.monitoring
TOOL_ID = 4
_SCHED_FILE = __file__
ACTIVE = None          # the scheduler currently running (CoopLock consults it)
_REAL_LOCK = threading.Lock
_REAL_RLOCK = threading.RLock


class SimDeadlock(BaseException):
    """Every live simulated thread is blocked on a lock held by another one."""


class CoopLock(object):
    """threading.Lock / RLock stand-in.  Outside a scheduled run (or on a thread
    the scheduler does not own) it is the real lock.  Inside, a thread that
    cannot get the lock hands the baton on instead of blocking the process --
    a parked thread may be the holder -- and a cycle of such waits is reported
    as a deadlock instead of hanging."""

    def __init__(self, reentrant=False):
        self._real = _REAL_RLOCK() if reentrant else _REAL_LOCK()

    def acquire(self, blocking=True, timeout=-1):
        sched = ACTIVE
        me = sched.names.get(threading.get_ident()) if sched is not None else None
        if me is None:
            return self._real.acquire(blocking, timeout)
        while True:
            if self._real.acquire(False):
                return True
            if not blocking or timeout == 0:
                return False
            sched.lock_wait(me)

    def release(self):
        self._real.release()
        sched = ACTIVE
        if sched is not None:
            sched.blocked.clear()

    def locked(self):
        return self._real.locked() if hasattr(self._real, 'locked') else False

    def __enter__(self):
        self.acquire()
        return self

    def __exit__(self, *a):
        self.release()

    def _is_owned(self):
        if hasattr(self._real, '_is_owned'):
            return self._real._is_owned()
        if self._real.acquire(False):
            self._real.release()
            return False
        return True

    def _release_save(self):
        if hasattr(self._real, '_release_save'):
            return self._real._release_save()
        self._real.release()

    def _acquire_restore(self, state):
        if hasattr(self._real, '_acquire_restore'):
            return self._real._acquire_restore(state)
        self._real.acquire()

    def _at_fork_reinit(self):
        self._real._at_fork_reinit()

    def __getattr__(self, k):
        return getattr(self._real, k)


def install_cooperative_locks():
    """Called once, before the tree under test is imported: locks that code under
    test creates (also at import time) become cooperative."""
    threading.Lock = lambda: CoopLock(False)
    threading.RLock = lambda: CoopLock(True)


class BatonScheduler(object):
    def __init__(self, order, preempts, granularity, watch, max_steps=200000, join_timeout=30.0, ticks=None, clock=None,
                 hot_funcs=(), hot_bits=(), record_funcs=False, record_trace=False):
        self.order = list(order)
        # the location of every yield point, in order (calibration runs: which lines does a request pass, and when)
        self.trace = [] if record_trace else None
        self.pre = {}
        for step, target in preempts:
            self.pre.setdefault(int(step), target)
        self.gran = granularity
        self.ticks = dict((int(st), dt) for st, dt in (ticks or []))     # yield point -> the simulated clock jumps by dt
        self.clock = clock
        self.watch = tuple(watch)
        # function-focused pre-emption: at every yield point inside a function named in hot_funcs the next planned
        # bit decides whether the runner is parked there and the next live thread (round robin) runs
        self.hot = frozenset(hot_funcs or ())
        self.hot_bits = list(hot_bits or ())
        self.hot_i = 0
        self.func_steps = {} if record_funcs else None
        self.max_steps = max_steps
        self.join_timeout = join_timeout
        self.cv = threading.Condition(_REAL_LOCK())
        self.blocked = set()      # threads waiting for a cooperative lock since the last release
        self.deadlock = None
        self.current = None
        self.alive = set()
        self.names = {}
        self.steps = 0
        self.switches = []        # (step, from, to, co_name, line/offset)
        self.finish_step = {}
        self._touched = []
        self.errors = {}

    # -- monitoring callbacks -------------------------------------------
    def _on_start(self, code, offset):
        fn = code.co_filename
        if not fn.startswith(self.watch) or fn == _SCHED_FILE:
            return mon.DISABLE
        ev = mon.events.LINE if self.gran == 'line' else mon.events.INSTRUCTION
        mon.set_local_events(TOOL_ID, code, ev)
        self._touched.append(code)

    def _on_event(self, code, where):
        me = self.names.get(threading.get_ident())
        if me is None or me != self.current:
            return
        self.steps += 1
        if self.ticks and self.clock is not None:
            dt = self.ticks.get(self.steps)
            if dt:
                self.clock.advance(dt)
        if self.func_steps is not None:
            self.func_steps[code.co_name] = self.func_steps.get(code.co_name, 0) + 1
        if self.trace is not None:
            self.trace.append('%s:%s:%s' % (os.path.basename(code.co_filename), code.co_name, where))
        target = self.pre.get(self.steps)
        if target is None and self.hot and code.co_name in self.hot and self.hot_i < len(self.hot_bits) and len(self.alive) >= 2:
            bit = self.hot_bits[self.hot_i]
            self.hot_i += 1
            if bit:
                target = 'next'
        if target is None or len(self.alive) < 2 or self.steps > self.max_steps:
            return
        if target == 'next':
            live = [n for n in self.order if n in self.alive]
            nxt = live[(live.index(me) + 1) % len(live)] if me in live else None
            if nxt == me:
                nxt = None
        elif target == 'demote':
            self.order.remove(me)
            self.order.append(me)
            nxt = None
            for n in self.order:
                if n in self.alive and n != me:
                    nxt = n
                    break
        elif target in self.alive and target != me:
            nxt = target
        else:
            nxt = None
        if nxt is None:
            return
        self.switches.append((self.steps, me, nxt, code.co_name, where))
        with self.cv:
            self.current = nxt
            self.cv.notify_all()
            while self.current != me:
                if self.deadlock is not None:
                    raise SimDeadlock(self.deadlock)
                self.cv.wait()

    def lock_wait(self, me):
        """*me* could not get a cooperative lock: let somebody else run."""
        self.blocked.add(me)
        nxt = None
        for n in self.order:
            if n in self.alive and n not in self.blocked:
                nxt = n
                break
        with self.cv:
            if nxt is None:
                self.deadlock = sorted(self.blocked & self.alive)
                self.current = None
                self.cv.notify_all()
                raise SimDeadlock(self.deadlock)
            self.switches.append((self.steps, me, nxt, 'lock-wait', 0))
            self.current = nxt
            self.cv.notify_all()
            while self.current != me:
                if self.deadlock is not None:
                    raise SimDeadlock(self.deadlock)
                self.cv.wait()

    # -- thread bodies -----------------------------------------------------
    def _body(self, name, fn):
        self.names[threading.get_ident()] = name
        try:
            with self.cv:
                while self.current != name:
                    if self.deadlock is not None:
                        raise SimDeadlock(self.deadlock)
                    self.cv.wait()
            fn()
        except BaseException as e:  # tasks are expected to catch their own
            self.errors[name] = e
        finally:
            with self.cv:
                self.finish_step[name] = self.steps
                self.alive.discard(name)
                self.names.pop(threading.get_ident(), None)
                self.blocked.clear()
                if self.deadlock is None:
                    nxt = None
                    for n in self.order:
                        if n in self.alive:
                            nxt = n
                            break
                    self.current = nxt
                self.cv.notify_all()

    def run(self, tasks):
        """tasks: {name: callable}.  Runs them under the schedule."""
        names = [n for n in self.order if n in tasks]
        if sorted(names) != sorted(tasks):
            raise HarnessError('schedule order %r does not name tasks %r' % (self.order, sorted(tasks)))
        self.alive = set(names)
        threads = [threading.Thread(target=self._body, args=(n, tasks[n]), name='sim-' + n, daemon=True)
                   for n in names]
        try:
            mon.use_tool_id(TOOL_ID, 'clastic-sim')
        except ValueError:
            mon.free_tool_id(TOOL_ID)
            mon.use_tool_id(TOOL_ID, 'clastic-sim')
        hung = []
        global ACTIVE
        ACTIVE = self
        try:
            mon.register_callback(TOOL_ID, mon.events.PY_START, self._on_start)
            # a generator / coroutine of the code under test that was started BEFORE the run is only ever resumed
            mon.register_callback(TOOL_ID, mon.events.PY_RESUME, self._on_start)
            mon.register_callback(TOOL_ID, mon.events.LINE, self._on_event)
            mon.register_callback(TOOL_ID, mon.events.INSTRUCTION, self._on_event)
            mon.restart_events()
            mon.set_events(TOOL_ID, mon.events.PY_START | mon.events.PY_RESUME)
            for t in threads:
                t.start()
            with self.cv:
                self.current = names[0]
                self.cv.notify_all()
            for t in threads:
                t.join(self.join_timeout)
                if t.is_alive():
                    hung.append(t.name)
        finally:
            mon.set_events(TOOL_ID, 0)
            for code in self._touched:
                try:
                    mon.set_local_events(TOOL_ID, code, 0)
                except Exception:
                    pass
            for evn in (mon.events.PY_START, mon.events.PY_RESUME, mon.events.LINE, mon.events.INSTRUCTION):
                mon.register_callback(TOOL_ID, evn, None)
            mon.free_tool_id(TOOL_ID)
            ACTIVE = None
        if hung:
            raise HarnessError('threads did not finish under the schedule: %r at step %d' % (hung, self.steps))
        return self
