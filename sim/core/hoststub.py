"""Host / process stub for clastic.meta: canned values or injected failures for
every system call the meta pages make.  Also removes a real DNS lookup and a
real umask flip from simulated runs."""
import datetime as _dt
import getpass as _real_getpass
import os as _real_os
import platform as _real_platform
import resource as _real_resource
import socket as _real_socket
import sys as _real_sys
import sysconfig as _real_sysconfig
import types

EXC = {'OSError': lambda: OSError(5, 'injected I/O error'), 'FileNotFoundError': lambda: FileNotFoundError(2, 'No such file or directory'),
       'PermissionError': lambda: PermissionError(1, 'Operation not permitted'), 'KeyError': lambda: KeyError('getpwuid(): uid not found'),
       'ValueError': lambda: ValueError('injected'), 'AttributeError': lambda: AttributeError('module has no such attribute'),
       'socket.gaierror': lambda: _real_socket.gaierror(-2, 'Name or service not known'), 'socket.herror': lambda: _real_socket.herror(1, 'Unknown host'),
       'RuntimeError': lambda: RuntimeError('injected'), 'MemoryError': lambda: MemoryError(), 'NotImplementedError': lambda: NotImplementedError()}

_RUSAGE_FIELDS = ['ru_utime', 'ru_stime', 'ru_maxrss', 'ru_ixrss', 'ru_idrss', 'ru_isrss', 'ru_minflt', 'ru_majflt', 'ru_nswap',
                  'ru_inblock', 'ru_oublock', 'ru_msgsnd', 'ru_msgrcv', 'ru_nsignals', 'ru_nvcsw', 'ru_nivcsw']

# site -> (canned default value factory, documented exceptions, unusual-but-legal values)
SITES = {
    'os.getpid': (lambda: 4242, [], [2 ** 40, 1]),
    'os.times': (lambda: (1.5, 0.5, 0.0, 0.0, 100.0), ['OSError'], [(0.0, 0.0, 0.0, 0.0, 0.0), (1e12, 1e12, 0, 0, 0)]),
    'os.getcwd': (lambda: '/srv/app', ['FileNotFoundError', 'OSError', 'PermissionError'],
                  ['/srv/<script>alert(1)</script>&"\'', '/srv/' + 'd' * 5000, '/srv/café/中文', '/srv/{bad}/{>x}']),
    'os.umask': (lambda: 0o022, ['OSError'], [0, 0o777]),
    'os.getuid': (lambda: 1000, ['OSError', 'AttributeError'], [0, 2 ** 31]),
    'os.getppid': (lambda: 1, ['AttributeError', 'OSError'], [0, 2 ** 40]),
    'os.getpgrp': (lambda: 4242, ['AttributeError', 'OSError'], [0]),
    'os.nice': (lambda: 0, ['AttributeError', 'OSError', 'PermissionError'], [-20, 19]),
    'os.getloadavg': (lambda: (0.1, 0.2, 0.3), ['OSError', 'AttributeError'], [(float('nan'),) * 3, (0.0, 0.0, 0.0), (1e9, 1e9, 1e9)]),
    'socket.gethostname': (lambda: 'simhost', ['OSError', 'socket.gaierror'], ['h' * 5000, 'hôte-主机', '<b>host</b>&', '']),
    'socket.getfqdn': (lambda: 'simhost.sim.test', ['OSError', 'socket.gaierror', 'socket.herror'], ['f' * 5000, 'fé.example', '<i>fqdn</i>', '']),
    'platform.uname': (lambda: ('Linux', 'simhost', '6.1.0', '#1 SMP', 'x86_64', ''), ['OSError', 'ValueError'], [('', '', '', '', '', '')]),
    'platform.platform': (lambda: 'Linux-6.1.0-x86_64-with-glibc2.36', ['OSError', 'ValueError'], ['', '<plat>&']),
    'platform.python_compiler': (lambda: 'GCC 12.2.0', ['ValueError'], ['']),
    'platform.python_build': (lambda: ('main', 'May  4 2026 21:36:30'), ['ValueError'], [('', '')]),
    'resource.getrusage': (None, ['OSError', 'ValueError'], []),
    'resource.getrlimit': (lambda: (1024, 4096), ['OSError', 'ValueError'], [(-1, -1), (2 ** 63 - 1, 2 ** 63 - 1)]),
    'getpass.getuser': (lambda: 'simuser', ['KeyError', 'OSError'], ['', 'usér', '<u>&', 'u' * 3000]),
    'sysconfig.get_config_vars': (lambda: {'CC': 'gcc', 'prefix': '/usr'}, ['OSError', 'ValueError', 'AttributeError'], [{}]),
    'sysconfig.get_paths': (lambda: {'stdlib': '/usr/lib/python3'}, ['OSError', 'KeyError', 'AttributeError'], [{}]),
    'sys._current_frames': (lambda: {1: None, 2: None}, ['RuntimeError', 'AttributeError'], [{}]),
    'sys.getrecursionlimit': (lambda: 1000, [], [2 ** 31 - 1]),
    'datetime.utcnow': (None, [], []),
}


class HostStub(object):
    def __init__(self, faults=None, clock=None):
        self.faults = dict(faults or {})      # site -> {'raise': excname} | {'value': index}
        self.fired = []
        self.called = []
        self.clock = clock

    def set_faults(self, faults):
        self.faults = dict(faults or {})
        self.fired = []
        self.called = []

    def call(self, site, *a):
        self.called.append(site)
        f = self.faults.get(site)
        default, excs, unusual = SITES[site]
        if f is not None:
            if 'raise' in f:
                self.fired.append('syscall_fails:' + site)
                raise EXC[f['raise']]()
            if 'value' in f and unusual:
                self.fired.append('syscall_unusual_value:' + site)
                return unusual[f['value'] % len(unusual)]
        if site == 'resource.getrusage':
            return types.SimpleNamespace(**dict((k, (1.25 if k in ('ru_utime', 'ru_stime') else 12345)) for k in _RUSAGE_FIELDS))
        return default()

    def _mod(self, prefix, real, names, extra=None):
        stub = self

        class Proxy(object):
            def __getattr__(self, k):
                return getattr(real, k)
        p = Proxy()
        for n in names:
            site = '%s.%s' % (prefix, n)
            p.__dict__[n] = (lambda site: (lambda *a, **kw: stub.call(site, *a)))(site)
        for k, v in (extra or {}).items():
            p.__dict__[k] = v
        return p

    def install(self, seams, meta):
        seams.patch(meta, 'os', self._mod('os', _real_os, ['getpid', 'times', 'getcwd', 'umask', 'getuid', 'getppid', 'getpgrp',
                                                           'nice', 'getloadavg']))
        seams.patch(meta, 'socket', self._mod('socket', _real_socket, ['gethostname', 'getfqdn']))
        seams.patch(meta, 'platform', self._mod('platform', _real_platform, ['uname', 'platform', 'python_compiler', 'python_build']))
        rl = dict((k, v) for k, v in _real_resource.__dict__.items() if k.startswith(('RLIMIT_', 'RUSAGE_')))
        seams.patch(meta, 'resource', self._mod('resource', _real_resource, ['getrusage', 'getrlimit'], rl))
        seams.patch(meta, 'getpass', self._mod('getpass', _real_getpass, ['getuser']))
        seams.patch(meta, 'sysconfig', self._mod('sysconfig', _real_sysconfig, ['get_config_vars', 'get_paths']))
        seams.patch(meta, 'sys', self._mod('sys', _real_sys, ['_current_frames', 'getrecursionlimit']))
        if self.clock is not None:
            from .seams import make_datetime_proxy
            dtmod, _ = make_datetime_proxy(self.clock)
            seams.patch(meta, 'datetime', dtmod)
