"""SimGateway: the simulated WSGI server, and SimClient: the simulated HTTP client.

The gateway builds a PEP 3333 environ from a request spec, calls the
application through ``wsgiref.validate.validator`` (optional), records
everything the application does with ``start_response`` and the body iterable,
decides how the server consumes the iterable (drain / abort after k chunks /
never iterate) and ALWAYS calls ``close()`` like a real server does.
"""
import io
import re
import warnings
from urllib.parse import unquote_to_bytes
from wsgiref.validate import validator

HOP_BY_HOP = frozenset(['connection', 'keep-alive', 'proxy-authenticate',
                        'proxy-authorization', 'te', 'trailers',
                        'transfer-encoding', 'upgrade'])
_STATUS_RE = re.compile(r'^[1-5][0-9][0-9] \S.*$')


def wsgi_str(b):
    return b.decode('latin-1')


def make_environ(method='GET', target='/', headers=None, body=b'', file_wrapper=None,
                 script_name='', host='sim.test', scheme='http', errors_stream=None):
    """*target* is the raw request target (percent-encoded path[?query]).
    errors_stream: None (accepts any text) | 'ascii' | 'utf8' -- the server's error log is a text stream in an encoding
    of the SERVER's choosing: text it cannot encode makes write() fail"""
    path, _, query = target.partition('?')
    env = {
        'REQUEST_METHOD': method,
        'SCRIPT_NAME': script_name,
        'PATH_INFO': wsgi_str(unquote_to_bytes(path)),
        'QUERY_STRING': query,
        'SERVER_NAME': host,
        'SERVER_PORT': '80' if scheme == 'http' else '443',
        'SERVER_PROTOCOL': 'HTTP/1.1',
        'HTTP_HOST': host,
        'REMOTE_ADDR': '10.0.0.1',
        'wsgi.version': (1, 0),
        'wsgi.url_scheme': scheme,
        'wsgi.input': io.BytesIO(body),
        'wsgi.errors': io.StringIO(),
        'wsgi.multithread': True,
        'wsgi.multiprocess': False,
        'wsgi.run_once': False,
    }
    if body or method in ('POST', 'PUT', 'PATCH'):
        env['CONTENT_LENGTH'] = str(len(body))
    for k, v in (headers or {}).items():
        kk = k.upper().replace('-', '_')
        if kk in ('CONTENT_TYPE', 'CONTENT_LENGTH'):
            env[kk] = v
        else:
            env['HTTP_' + kk] = v
    if file_wrapper is not None:
        env['wsgi.file_wrapper'] = file_wrapper
    if errors_stream:
        env['wsgi.errors'] = io.TextIOWrapper(io.BytesIO(), encoding={'ascii': 'ascii', 'utf8': 'utf-8'}[errors_stream],
                                              errors='strict', write_through=True)
    return env


class Exchange(object):
    """Everything one request/response exchange did."""

    def __init__(self):
        self.start_calls = []      # [(status, headers, had_exc_info)]
        self.chunks = []
        self.escaped = None        # exception that left the WSGI callable / iteration
        self.escaped_phase = None  # 'call' | 'iter' | 'close'
        self.closed = False
        self.close_called = 0
        self.sendfile_used = False
        self.errors = []           # protocol violations (strings, stable keys first)
        self.bytes_before_start = False
        self.write_used = False
        self.iter_done = False
        self.environ = None

    @property
    def status(self):
        return self.start_calls[-1][0] if self.start_calls else None

    @property
    def code(self):
        try:
            return int(self.status[:3])
        except Exception:
            return None

    @property
    def headers(self):
        return self.start_calls[-1][1] if self.start_calls else []

    def header(self, name, default=None):
        name = name.lower()
        for k, v in self.headers:
            if isinstance(k, str) and k.lower() == name:
                return v
        return default

    def header_all(self, name):
        name = name.lower()
        return [v for k, v in self.headers if isinstance(k, str) and k.lower() == name]

    @property
    def body(self):
        return b''.join(c for c in self.chunks if isinstance(c, bytes))

    def err(self, key, msg=''):
        self.errors.append((key, msg))


class SendfileWrapper(object):
    """wsgi.file_wrapper of a server that transmits with sendfile(2): when the application returns this very object and the
    file-like has a descriptor, the server sends Content-Length bytes from the DESCRIPTOR's current offset (as gunicorn
    does); otherwise it iterates like any wrapper."""

    def __init__(self, filelike, blksize=8192):
        self.filelike, self.blksize = filelike, blksize

    def __iter__(self):
        return self

    def __next__(self):
        data = self.filelike.read(self.blksize)
        if data:
            return data
        raise StopIteration

    def close(self):
        if hasattr(self.filelike, 'close'):
            self.filelike.close()


def _sendfile(ex, it):
    import os
    fd = it.filelike.fileno()
    n = None
    for k, v in (ex.start_calls[-1][1] if ex.start_calls else []):
        if k.lower() == 'content-length' and v.isdigit():
            n = int(v)
    while n is None or n > 0:
        chunk = os.read(fd, 65536 if n is None else min(65536, n))
        if not chunk:
            break
        ex.chunks.append(chunk)
        if n is not None:
            n -= len(chunk)
    ex.iter_done = True
    ex.sendfile_used = True


def call_app(app, environ, consume='drain', abort_after=0, validate=True):
    """Run one exchange.  consume: 'drain' | 'abort' | 'noiter'."""
    ex = Exchange()
    ex.environ = environ
    method = environ['REQUEST_METHOD']

    def start_response(status, headers, exc_info=None):
        ex.start_calls.append((status, headers, exc_info is not None))
        if len(ex.start_calls) > 1 and exc_info is None:
            ex.err('start_response-called-twice')

        def write(data):
            ex.write_used = True
            ex.chunks.append(data)
        return write

    target = validator(app) if validate else app
    it = None
    with warnings.catch_warnings():
        # (the process-wide filter -- 'ignore' from the launcher, or what a plan escalated on purpose -- stays in force)
        try:
            it = target(environ, start_response)
        except AssertionError as e:
            ex.err('wsgiref-validate', str(e))
            ex.escaped, ex.escaped_phase = e, 'call'
        except Exception as e:  # the application let an exception out
            ex.escaped, ex.escaped_phase = e, 'call'
        if it is not None:
            try:
                if (isinstance(it, SendfileWrapper) and consume == 'drain' and method != 'HEAD' and ex.start_calls
                        and callable(getattr(it.filelike, 'fileno', None))):
                    _sendfile(ex, it)
                elif consume != 'noiter':
                    n = 0
                    iterator = iter(it)
                    while True:
                        if consume == 'abort' and n >= abort_after:
                            break
                        try:
                            chunk = next(iterator)
                        except StopIteration:
                            ex.iter_done = True
                            break
                        if not ex.start_calls and chunk:
                            ex.bytes_before_start = True
                        ex.chunks.append(chunk)
                        n += 1
            except AssertionError as e:
                ex.err('wsgiref-validate', str(e))
                ex.escaped, ex.escaped_phase = e, 'iter'
            except Exception as e:
                ex.escaped, ex.escaped_phase = e, 'iter'
            finally:
                close = getattr(it, 'close', None)
                if close is not None:
                    try:
                        close()
                        ex.close_called += 1
                        ex.closed = True
                    except AssertionError as e:
                        # validator complains when we close without having iterated: that
                        # is the *server's* choice here, not an application error
                        if consume == 'drain':
                            ex.err('wsgiref-validate', str(e))
                    except Exception as e:
                        if ex.escaped is None:
                            ex.escaped, ex.escaped_phase = e, 'close'
    _monitor(ex, method, consume)
    return ex


def _monitor(ex, method, consume):
    """PEP 3333 checks of the recorded exchange (application side only)."""
    if ex.escaped is not None and ex.escaped_phase == 'call':
        return
    if not ex.start_calls:
        if consume == 'drain' or ex.chunks:
            ex.err('start_response-never-called')
        return
    if ex.bytes_before_start:
        ex.err('body-before-start_response')
    status, headers, _ = ex.start_calls[-1]
    if not isinstance(status, str) or not _STATUS_RE.match(status):
        ex.err('bad-status-line', repr(status))
    else:
        # a native string that must go onto the wire as is: latin-1 only, no control characters
        try:
            status.encode('latin-1')
        except UnicodeEncodeError:
            ex.err('status-line-not-latin1', repr(status)[:80])
        if any(ord(c) < 0x20 or ord(c) == 0x7f for c in status):
            ex.err('status-line-control-char', repr(status)[:80])
    if type(headers) is not list:
        ex.err('headers-not-list', type(headers).__name__)
    else:
        for item in headers:
            if not (type(item) is tuple and len(item) == 2 and type(item[0]) is str and type(item[1]) is str):
                ex.err('header-not-str-pair', repr(item)[:80])
                continue
            k, v = item
            try:
                k.encode('latin-1')
                v.encode('latin-1')
            except UnicodeEncodeError:
                ex.err('header-not-latin1', repr(item)[:80])
            if k.lower() in HOP_BY_HOP:
                ex.err('hop-by-hop-header', k)
            if '\n' in v or '\r' in v or '\n' in k or '\r' in k:
                ex.err('header-control-char', repr(item)[:80])
    for c in ex.chunks:
        if type(c) is not bytes:
            ex.err('chunk-not-bytes', type(c).__name__)
            break
    if method == 'HEAD' and ex.body:
        ex.err('head-has-body', '%d bytes' % len(ex.body))
    # framing: a declared Content-Length is the number of body BYTES (a real server cuts or pads the body to it)
    if consume == 'drain' and ex.iter_done and method != 'HEAD' and type(headers) is list and isinstance(status, str) \
            and status[:3] not in ('204', '304') and not status.startswith('1'):
        cls = [v for k, v in headers if type(k) is str and k.lower() == 'content-length']
        if cls and all(type(c) is bytes for c in ex.chunks):
            try:
                declared = int(cls[-1])
            except (TypeError, ValueError):
                ex.err('content-length-not-a-number', repr(cls[-1])[:40])
            else:
                if declared != len(ex.body):
                    ex.err('content-length-mismatch', 'Content-Length %d, %d body bytes' % (declared, len(ex.body)))


_COOKIE_RE = re.compile(r'^\s*([^=;\s]+)\s*=\s*("[^"]*"|[^;]*)')


class SimClient(object):
    """A client with a raw cookie jar; it never expires or validates cookies
    itself (the server must), and can be told to send arbitrary values."""

    def __init__(self, name):
        self.name = name
        self.jar = {}          # cookie name -> raw value as received
        self.meta = {}         # cookie name -> attribute dict (expires=...)
        self.last_modified = {}

    def cookie_header(self, override=None):
        jar = dict(self.jar)
        if override:
            jar.update(override)
        jar = dict((k, v) for k, v in jar.items() if v is not None)
        if not jar:
            return None
        return '; '.join('%s=%s' % kv for kv in sorted(jar.items()))

    def absorb(self, exchange):
        for raw in exchange.header_all('Set-Cookie'):
            m = _COOKIE_RE.match(raw)
            if not m:
                continue
            name, value = m.group(1), m.group(2)
            attrs = {}
            for part in raw.split(';')[1:]:
                k, _, v = part.strip().partition('=')
                attrs[k.lower()] = v
            self.jar[name] = value
            self.meta[name] = attrs
