"""Command line of clastic-sim (stage 2 of bin/simcheck)."""
import argparse
import json
import os
import sys

from .base import HarnessError


def _safe_print(*args, **kw):
    """The simulator's own output never fails on a stream that only takes ASCII (interpreter flag 'A')."""
    import builtins
    import sys as _sys
    enc = (getattr(kw.get('file') or _sys.stdout, 'encoding', None) or 'utf-8').lower()
    if enc.replace('-', '').replace('_', '') in ('ascii', 'usascii', 'ansix3.41968', '646'):
        args = [str(a).encode('ascii', 'backslashreplace').decode('ascii') for a in args]
    builtins.print(*args, **kw)


print = _safe_print



def _assert_tree():
    import clastic
    repo = os.path.abspath(os.environ.get('VERIF_REPO', '/repo'))
    got = os.path.dirname(os.path.abspath(clastic.__file__))
    if got != os.path.join(repo, 'clastic'):
        raise HarnessError('clastic imported from %s, expected %s/clastic' % (got, repo))


def main(argv):
    ap = argparse.ArgumentParser(prog='simcheck')
    sub = ap.add_subparsers(dest='cmd', required=True)
    r = sub.add_parser('run')
    r.add_argument('--property', required=True)
    r.add_argument('--tier', default=os.environ.get('VERIF_TIER', 'quick'), choices=['quick', 'thorough'])
    r.add_argument('--max-runs', type=int, default=None)
    r.add_argument('--nproc', type=int, default=None)
    r.add_argument('--no-evidence', action='store_true')
    p = sub.add_parser('replay')
    p.add_argument('path')
    p.add_argument('--quiet', action='store_true')
    p.add_argument('--record', action='store_true')
    d = sub.add_parser('digests')
    d.add_argument('--property', required=True)
    d.add_argument('--tier', required=True)
    d.add_argument('--seed', type=int, required=True)
    d.add_argument('--jobs', required=True)
    sub.add_parser('doctor')
    g = sub.add_parser('gate')
    g.add_argument('--property', required=True)
    g.add_argument('--seeds', type=int, default=200)
    o = sub.add_parser('one')
    o.add_argument('--property', required=True)
    o.add_argument('--tier', default='quick')
    o.add_argument('--index', type=int, default=0)
    o.add_argument('--dump', action='store_true')
    args = ap.parse_args(argv)
    try:
        _assert_tree()
        from . import runner
        seed = int(os.environ.get('VERIF_SEED', runner.DEFAULT_SEED))
        if args.cmd == 'run':
            return runner.run_check(args.property, args.tier, seed, nproc=args.nproc,
                                    max_runs=args.max_runs, write_evidence=not args.no_evidence)
        if args.cmd == 'replay':
            return runner.replay_file(args.path, quiet=args.quiet, record=args.record)
        if args.cmd == 'digests':
            return runner.digests_cmd(args.property, args.tier, args.seed, json.loads(args.jobs))
        if args.cmd == 'doctor':
            from . import doctor
            return doctor.main()
        if args.cmd == 'gate':
            from . import doctor
            return doctor.gate(args.property, args.seeds, seed)
        if args.cmd == 'one':
            chk = runner.load_check(args.property)
            from .base import run_seed
            plan = chk.generate(run_seed(seed, args.index), args.tier)
            if args.dump:
                print(json.dumps(plan, indent=1, sort_keys=True))
            res = chk.execute(plan)
            print('\n'.join(res.log))
            print('violations:', [(v.key, v.message) for v in res.violations])
            print('fired:', res.fired, 'probes:', res.probes, 'sig:', res.signature, 'nontrivial:', res.nontrivial)
            return 1 if res.violations else 0
    except HarnessError as e:
        print('HARNESS-ERROR %s' % e)
        return 2
    except Exception:
        import traceback
        print('HARNESS-ERROR unexpected exception in the simulator:\n%s' % traceback.format_exc())
        return 2
