"""Core data types of clastic-sim: seeded streams, plans, run results, digests.

One integer decides everything: a *run seed* is hashed with a label into
independent PRNG streams that are used ONLY by generators.  Executors never
draw from a PRNG: they interpret an explicit, JSON-serialisable plan.
"""
import hashlib
import json
import random


class HarnessError(Exception):
    """The simulator itself is broken (seam missing, replay mismatch, ...).

    Never reported as a VIOLATION; the check exits 2."""


class InvalidPlan(Exception):
    """A (shrunk) plan that cannot be executed at all; treated as 'does not
    reproduce' by the minimiser and as a harness error everywhere else."""


def stream(seed, label):
    h = hashlib.sha256(('%d:%s' % (seed, label)).encode()).digest()
    return random.Random(int.from_bytes(h[:8], 'big'))


class Streams(object):
    """Lazily created independent PRNG streams of one run seed."""

    def __init__(self, seed):
        self.seed = seed
        self._s = {}

    def __getitem__(self, label):
        if label not in self._s:
            self._s[label] = stream(self.seed, label)
        return self._s[label]


def run_seed(base_seed, index):
    return (int(base_seed) << 20) + int(index)


def canon(obj):
    return json.dumps(obj, sort_keys=True, separators=(',', ':'), ensure_ascii=True, default=repr)


def digest_of(lines):
    h = hashlib.sha256()
    for ln in lines:
        h.update(ln.encode('utf8', 'backslashreplace'))
        h.update(b'\n')
    return h.hexdigest()


class Violation(object):
    __slots__ = ('key', 'message', 'step')

    def __init__(self, key, message, step=None):
        self.key = key
        self.message = message
        self.step = step

    def to_json(self):
        return {'key': self.key, 'message': self.message[:2000], 'step': self.step}


class RunResult(object):
    """What one executed plan produced."""

    def __init__(self):
        self.log = []            # event log: strings, never wall-clock/ids
        self.violations = []     # list[Violation]
        self.fired = {}          # fault kind -> times it actually fired
        self.probes = {}         # rare-branch probe -> hits
        self.signature = ''      # shape of the run (for distinct counting)
        self.sigs = set()        # or: several case signatures per run (op-level cases)
        self.nontrivial = False  # >=1 fault fired / pre-emption happened / ...
        self.sim_time = 0.0      # simulated seconds covered
        self.steps = 0           # ops / yield points executed
        self.extra = {}          # world specific (e.g. interleaving hash)

    def ev(self, *parts):
        self.log.append(' '.join(str(p) for p in parts))

    def fire(self, kind, n=1):
        self.fired[kind] = self.fired.get(kind, 0) + n

    def probe(self, name, n=1):
        self.probes[name] = self.probes.get(name, 0) + n

    def violate(self, key, message, step=None):
        self.violations.append(Violation(key, message, step))
        self.ev('VIOLATION', key)

    @property
    def digest(self):
        return digest_of(self.log)


class Check(object):
    """One claimed property: generator + executor + shrinker.

    Subclasses set the class attributes and implement generate/execute."""
    id = None
    world = None
    level = 'exploration'
    rule = ''
    assumptions = ()
    components = {'real': [], 'stub': []}
    design_ref = ''
    level_text = ''
    level_note = ''
    # (quick, thorough) number of generated runs
    runs = {'quick': 200, 'thorough': 2000}
    # lists inside a plan that the generic minimiser may drop elements from
    shrink_lists = (('ops',), ('faults',))
    # probes that must be hit at least once in a thorough batch
    required_probes = ()

    def n_runs(self, tier):
        return self.runs[tier]

    def generate(self, seed, tier):
        """-> plan (JSON-serialisable dict). Only place a PRNG is used."""
        raise NotImplementedError

    def execute(self, plan):
        """-> RunResult.  Pure function of the plan and the code under test."""
        raise NotImplementedError

    def extra_plans(self, tier, base_seed):
        """Structured (non-random) part of the search space, e.g. complete
        single-fault sweeps.  Yields plans."""
        return ()

    def simplify(self, plan):
        """Yield plans with *simpler* (not fewer) elements; optional."""
        return ()

    def setup(self):
        """Once per process before the first execute (warm caches)."""

    def sample_of(self, plan):
        """Abbreviated plan for the evidence file."""
        s = canon(plan)
        if len(s) > 1500:
            return json.loads(canon({k: (v if len(canon(v)) < 400 else '<%d chars>' % len(canon(v)))
                                     for k, v in plan.items()}))
        return plan


def get_path(plan, path):
    cur = plan
    for p in path:
        cur = cur[p]
    return cur


def set_path(plan, path, value):
    """Return a deep-ish copy of plan with plan[path] = value."""
    new = json.loads(json.dumps(plan))
    cur = new
    for p in path[:-1]:
        cur = cur[p]
    cur[path[-1]] = value
    return new
