"""setup_cmd / self-tests: imports the tree under test, installs and removes
every seam once, runs a tiny determinism self-test.  Installs nothing."""
import glob
import importlib
import os
import sys

from .base import HarnessError, run_seed
from . import runner


def _safe_print(*args, **kw):
    """The simulator's own output never fails on a stream that only takes ASCII (interpreter flag 'A')."""
    import builtins
    import sys as _sys
    enc = (getattr(kw.get('file') or _sys.stdout, 'encoding', None) or 'utf-8').lower()
    if enc.replace('-', '').replace('_', '') in ('ascii', 'usascii', 'ansix3.41968', '646'):
        args = [str(a).encode('ascii', 'backslashreplace').decode('ascii') for a in args]
    builtins.print(*args, **kw)


print = _safe_print



def claimed():
    ids = []
    for p in sorted(glob.glob(os.path.join(runner.VERIF, 'sim', 'props', 'c[0-9]*.py'))):
        ids.append(os.path.basename(p)[:-3].upper())
    return ids


def main():
    import clastic
    print('doctor: python %s, clastic from %s' % (sys.version.split()[0], os.path.dirname(clastic.__file__)))
    from . import seams as _s
    import clastic.static
    import clastic.meta
    import clastic.server
    import clastic.middleware.cookie
    import clastic.middleware.stats
    import secure_cookie.cookie
    table = [(clastic.static, ['isfile', 'os', 'open' if hasattr(clastic.static, 'open') else 'os']),
             (clastic.middleware.cookie, ['time', 'os']),
             (secure_cookie.cookie, ['time']),
             (clastic.middleware.stats, ['time', 'random', 'datetime']),
             (clastic.meta, ['os', 'socket', 'platform', 'getpass', 'sys', 'datetime']),
             (clastic.server, ['subprocess', 'reloader_loop', 'make_server', 'os', 'sys'])]
    n = 0
    with _s.Seams() as sm:
        for mod, names in table:
            for name in names:
                sm.patch(mod, name, getattr(mod, name))
                n += 1
    print('doctor: %d seams installable' % n)
    for pid in claimed():
        chk = runner.load_check(pid)
        plan = chk.generate(run_seed(1, 0), 'quick')
        a = chk.execute(plan).digest
        b = chk.execute(plan).digest
        if a != b:
            raise HarnessError('%s: same plan, different digests' % pid)
        print('doctor: %s ok (%s)' % (pid, chk.world))
    print('doctor: OK')
    return 0


def gate(pid, nseeds, base_seed):
    """Determinism self-test: many seeds, executed twice here; the caller runs
    this under several PYTHONHASHSEEDs and diffs the printed digest list."""
    import hashlib
    chk = runner.load_check(pid)
    h = hashlib.sha256()
    bad = 0
    for i in range(nseeds):
        plan = chk.generate(run_seed(base_seed, i), 'quick')
        a = chk.execute(plan).digest
        plan2 = chk.generate(run_seed(base_seed, i), 'quick')
        b = chk.execute(plan2).digest
        if a != b:
            bad += 1
            print('MISMATCH seed index %d' % i)
        h.update(a.encode())
    print('gate %s seeds=%d mismatches=%d combined=%s' % (pid, nseeds, bad, h.hexdigest()[:24]))
    return 2 if bad else 0
