"""Plan minimisation: delta debugging over the plan's lists, then per-check
simplification of elements, while the SAME violation key persists."""
import json
import time

from .base import get_path, set_path


def _fails(check, plan, key):
    try:
        res = check.execute(plan)
    except Exception:
        return None
    if res.violations and res.violations[0].key == key:
        return res
    return None


def _ddmin_list(check, plan, path, key, deadline, stats):
    try:
        items = list(get_path(plan, path))
    except (KeyError, IndexError, TypeError):
        return plan, None
    best = None
    n = 2
    while len(items) >= 1 and time.time() < deadline:
        chunk = max(1, len(items) // n)
        reduced = False
        for start in range(0, len(items), chunk):
            if time.time() >= deadline:
                break
            cand_items = items[:start] + items[start + chunk:]
            cand = set_path(plan, path, cand_items)
            stats['tried'] += 1
            res = _fails(check, cand, key)
            if res is not None:
                items, plan, best = cand_items, cand, res
                n = max(n - 1, 2)
                reduced = True
                stats['accepted'] += 1
                break
        if not reduced:
            if chunk == 1:
                break
            n = min(len(items), n * 2)
    return plan, best


def minimise(check, plan, key, budget_s):
    t0 = time.time()
    deadline = t0 + budget_s
    stats = {'tried': 0, 'accepted': 0}
    res = _fails(check, plan, key)
    if res is None:
        raise RuntimeError('violation %s does not reproduce before minimisation' % key)
    sizes0 = _sizes(check, plan)
    progress = True
    rounds = 0
    while progress and time.time() < deadline and rounds < 6:
        progress = False
        rounds += 1
        for path in check.shrink_lists:
            before = len(json.dumps(plan))
            plan, r = _ddmin_list(check, plan, tuple(path), key, deadline, stats)
            if r is not None:
                res = r
            if len(json.dumps(plan)) < before:
                progress = True
        for cand in check.simplify(plan):
            if time.time() >= deadline:
                break
            stats['tried'] += 1
            r = _fails(check, cand, key)
            if r is not None and len(json.dumps(cand)) <= len(json.dumps(plan)):
                if json.dumps(cand, sort_keys=True) != json.dumps(plan, sort_keys=True):
                    plan, res = cand, r
                    stats['accepted'] += 1
                    progress = True
                    break
    stats['original_sizes'] = sizes0
    stats['final_sizes'] = _sizes(check, plan)
    stats['wall_s'] = round(time.time() - t0, 2)
    return plan, res.violations[0].to_json(), res.digest, stats


def _sizes(check, plan):
    out = {}
    for path in check.shrink_lists:
        try:
            out['.'.join(str(p) for p in path)] = len(get_path(plan, tuple(path)))
        except (KeyError, IndexError, TypeError):
            pass
    return out
