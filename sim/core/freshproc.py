"""Executing one plan in a process of its own: a freshly started interpreter that has imported the tree under test
and served NOTHING yet.  What the framework sets up per process on first use (lazy registrations, caches, counters)
is in its initial state there -- in a pool worker it is in whatever state the worker's earlier runs left it.

Parent side: run(check_id, plan) -> RunResult (the child's).  The child is a function of the plan, the code and the
interpreter settings it inherits (hash seed, -O, stdio encoding): one plan is one repeatable execution.

Child side (python sim/core/freshproc.py <check id> <result file>): the plan on stdin, the pickled result in the file.
"""
import json
import os
import pickle
import subprocess
import sys
import tempfile

VERIF = os.path.dirname(os.path.dirname(os.path.dirname(os.path.abspath(__file__))))


class FreshProcessError(Exception):
    """The child did not deliver a result (a harness error, never a verdict)."""


def run(check_id, plan, timeout=180.0):
    plan = dict(plan)
    plan.pop('fresh_process', None)
    fd, path = tempfile.mkstemp(prefix='simfresh-', suffix='.pickle')
    os.close(fd)
    try:
        env = dict(os.environ)
        env['SIM_STAGE'] = '2'
        p = subprocess.run([sys.executable, os.path.abspath(__file__), check_id, path], input=json.dumps(plan).encode('ascii'),
                           env=env, stdout=subprocess.PIPE, stderr=subprocess.STDOUT, timeout=timeout)
        if p.returncode != 0:
            raise FreshProcessError('child interpreter exited %s: %s' % (p.returncode, p.stdout[-2000:].decode('utf8', 'replace')))
        with open(path, 'rb') as f:
            return pickle.load(f)
    finally:
        try:
            os.unlink(path)
        except OSError:
            pass


def _child(check_id, path):
    repo = os.path.abspath(os.environ.get('VERIF_REPO', '/repo'))
    sys.path.insert(0, VERIF)
    sys.path.insert(0, repo)
    import warnings
    warnings.simplefilter('ignore')
    from sim.core import sched as _sched
    _sched.install_cooperative_locks()
    from sim.core import runner
    plan = json.loads(sys.stdin.buffer.read().decode('ascii'))
    res = runner.load_check(check_id).execute(plan)
    with open(path, 'wb') as f:
        pickle.dump(res, f)


if __name__ == '__main__':
    _child(sys.argv[1], sys.argv[2])
