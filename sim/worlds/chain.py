"""Chain world: harness-supplied middlewares / endpoints / renderers with exact
signatures and cooperative fault points, plus the run-time recorder (RT).

Behaviours are looked up at call time (RT.faults: function name -> behaviour),
so one constructed application serves a whole history of differently-faulted
requests.  Everything a harness function observes is recorded per request
sequence number (thread-local), so concurrent requests stay attributable.
"""
import sys
import threading
import types

from clastic import Middleware, Response
from clastic import errors as cerrors


class Boom(Exception):
    """The injected application failure."""


class _Default(object):
    def __repr__(self):
        return 'DEFAULT'


DEFAULT = _Default()

EXC_TYPES = {
    'ValueError': ValueError, 'KeyError': KeyError, 'TypeError': TypeError, 'RuntimeError': RuntimeError,
    'ZeroDivisionError': ZeroDivisionError, 'AttributeError': AttributeError, 'OSError': OSError,
    'UnicodeDecodeError': lambda m: UnicodeDecodeError('utf8', b'\xff', 0, 1, m), 'AssertionError': AssertionError,
    'StopIteration': StopIteration, 'NotImplementedError': NotImplementedError, 'RecursionError': RecursionError,
    'Boom': Boom, 'LookupError': LookupError, 'MemoryError': MemoryError,
}


class FalsyResponse(Response):
    def __len__(self):
        return len(self.get_data())


class Recorder(object):
    def __init__(self):
        self.tls = threading.local()
        self.reset()

    def reset(self, faults=None):
        self.faults = dict(faults or {})
        self.seq_faults = {}   # seq -> faults of that request only (concurrent requests with different fault plans)
        self.trace = {}       # seq -> [event strings]
        self.calls = {}       # seq -> [(function name, kwargs dict)]
        self.labels = {}
        self.keep = []
        self.raised = {}      # seq -> [exception objects created by the harness]
        self.created = {}     # seq -> [objects created by harness functions in that request]
        self.positional = set()   # middleware functions that call next() positionally
        self.seq_imports = set()  # requests whose harness functions each do a first-time import (application code importing lazily)
        for k in [k for k in sys.modules if k.startswith('sim_lazy_mod_')]:
            del sys.modules[k]
        self.n_lazy = 0
        self.lock_free_counter = 0

    @property
    def seq(self):
        return getattr(self.tls, 'seq', 0)

    def set_seq(self, seq):
        self.tls.seq = seq

    def ev(self, s):
        self.trace.setdefault(self.seq, []).append(s)

    def new(self, obj, hint):
        """Label an object at creation (kept alive so ids are not reused)."""
        self.keep.append(obj)
        lab = '%s#%d' % (hint, len(self.keep))
        self.labels[id(obj)] = lab
        self.created.setdefault(self.seq, []).append(obj)
        return obj

    def label_of(self, obj):
        lab = self.labels.get(id(obj))
        if lab is None:
            self.keep.append(obj)
            lab = '?%s#%d' % (type(obj).__name__, len(self.keep))
            self.labels[id(obj)] = lab
        return lab

    def record(self, name, kwargs):
        self.calls.setdefault(self.seq, []).append((name, kwargs))
        if self.seq in self.seq_imports:
            # what `import some_module` inside a function does the first time: the table of loaded modules grows
            self.n_lazy += 1
            name = 'sim_lazy_mod_%d' % self.n_lazy
            mod = types.ModuleType(name)
            mod.__version__ = '1.%d' % self.n_lazy
            sys.modules[name] = mod

    def prov(self, fname, pname):
        return ('prov', self.seq, fname, pname)

    # -- behaviours ----------------------------------------------------------
    def make_exc(self, spec, who):
        kind = spec.get('exc', 'Boom')
        msg = spec.get('msg', 'injected-%s' % who)
        if kind.startswith('http:'):
            cls = getattr(cerrors, kind[5:])
            kw = {}
            if 'breaking' in spec:
                kw['is_breaking'] = spec['breaking']
            if spec.get('exc_info') and issubclass(cls, cerrors.InternalServerError):
                # application code attaching what went wrong, as the framework's own handlers do: an ExceptionInfo
                # (other values for this undocumented argument are not generated)
                try:
                    raise LookupError('the backend said no')
                except LookupError:
                    from boltons.tbutils import ExceptionInfo, ContextualExceptionInfo
                    it = ContextualExceptionInfo if issubclass(cls, cerrors.ContextualInternalServerError) else ExceptionInfo
                    kw['exc_info'] = it.from_current()
            e = cls(detail=msg, **kw)
        else:
            e = EXC_TYPES[kind](msg)
        self.raised.setdefault(self.seq, []).append(e)
        return self.new(e, 'exc:%s' % kind)

    def make_value(self, spec, who):
        v = spec.get('value', 'resp')
        if v == 'resp':
            return self.new(Response('resp-from-%s' % who, status=spec.get('status', 200),
                                     headers={'X-Sim-From': who}), 'resp:' + who)
        if v == 'baseresp':
            # a bare werkzeug BaseResponse: a response object without clastic's/werkzeug's mixins
            from werkzeug.wrappers import BaseResponse
            return self.new(BaseResponse('bare-resp-from-%s' % who, status=spec.get('status', 200),
                                         headers={'X-Sim-From': who}), 'resp:' + who)
        if v == 'falsyresp':
            # a response that is falsy (a subclass with __len__, empty body): still a response
            return self.new(FalsyResponse(b'', status=spec.get('status', 202), headers={'X-Sim-From': who}), 'resp:' + who)
        if v == 'str':
            return 'a-string-from-%s' % who
        if v == 'none':
            return None
        if v == 'number':
            return 42
        if v == 'dict':
            return self.new({'from': who}, 'ctx:' + who)
        if v == 'emptydict':
            return self.new({}, 'ctx:' + who)
        if v == 'emptylist':
            return self.new([], 'ctx:' + who)
        if v == 'excobj':
            # an exception INSTANCE handed on as a value (a caught error given to the page renderer): a context like any other
            return self.new(LookupError('returned as a value by %s, not raised' % who), 'ctx:' + who)
        if v == 'bytes':
            return b'bytes'
        if v == 'list':
            return self.new([1, 2], 'list:' + who)
        if v.startswith('http:'):
            return self.make_exc({'exc': v, 'msg': spec.get('msg', 'returned-%s' % who),
                                  **({'breaking': spec['breaking']} if 'breaking' in spec else {}),
                                  **({'exc_info': spec['exc_info']} if 'exc_info' in spec else {})}, who)
        raise ValueError('unknown value kind %r' % v)

    def layer(self, name, nxt, kwargs, provides):
        """Body of every harness middleware function."""
        self.record(name, kwargs)
        spec = self.seq_faults.get(self.seq, self.faults).get(name) or {'beh': 'pass'}
        beh = spec['beh']
        self.ev('>' + name)
        if beh == 'raise_before':
            e = self.make_exc(spec, name)
            self.ev('!%s %s' % (name, self.label_of(e)))
            raise e
        if beh == 'return_early':
            r = self.make_value(spec, name)
            self.ev('<%s %s' % (name, self.label_of(r) if r is not None and not isinstance(r, (str, int, bytes)) else repr(r)))
            return r
        try:
            if spec.get('positional') or name in self.positional:
                # hand the provided values over positionally, in the order of the provides tuple
                r = nxt(*[self.prov(name, p) for p in provides])
            else:
                r = nxt(**dict((p, self.prov(name, p)) for p in provides))
        except Exception as e:
            self.ev('x%s %s' % (name, self.label_of(e)))
            if beh == 'swallow':
                r = self.make_value(spec, name)
                self.ev('<%s %s' % (name, self.label_of(r)))
                return r
            raise
        if beh == 'raise_after':
            e = self.make_exc(spec, name)
            self.ev('!%s %s' % (name, self.label_of(e)))
            raise e
        if beh == 'replace_after':
            r = self.make_value(spec, name)
        self.ev('<%s %s' % (name, _lab(self, r)))
        return r

    def leaf(self, name, kwargs, default_value):
        """Body of every harness endpoint / render function."""
        self.record(name, kwargs)
        spec = self.seq_faults.get(self.seq, self.faults).get(name) or {'beh': 'pass'}
        beh = spec['beh']
        self.ev('>' + name)
        if beh in ('raise', 'raise_before'):
            e = self.make_exc(spec, name)
            self.ev('!%s %s' % (name, self.label_of(e)))
            raise e
        if beh == 'return':
            r = self.make_value(spec, name)
        else:
            r = self.make_value({'value': default_value}, name)
        self.ev('<%s %s' % (name, _lab(self, r)))
        return r


def _lab(rt, r):
    if r is None or isinstance(r, (str, int, bytes, float)):
        return repr(r)
    return rt.label_of(r)


RT = Recorder()


def make_function(name, is_mw, params_req=(), params_opt=(), kw_req=(), kw_opt=(), provides=(),
                  default_value='resp', bound=True):
    """Build a function with an EXACT signature (never **kwargs)."""
    sig = []
    if bound:
        sig.append('self')
    if is_mw:
        sig.append('next')
    sig += list(params_req) + ['%s=DEFAULT' % p for p in params_opt]
    if kw_req or kw_opt:
        sig.append('*')
        sig += list(kw_req) + ['%s=DEFAULT' % p for p in kw_opt]
    allp = list(params_req) + list(params_opt) + list(kw_req) + list(kw_opt)
    kwd = '{%s}' % ', '.join('%r: %s' % (p, p) for p in allp)
    namex = '(self._sim_name + %r)' % ('.' + name) if bound and is_mw else repr(name)
    if is_mw:
        body = '    return RT.layer(%s, next, %s, %r)\n' % (namex, kwd, tuple(provides))
    else:
        body = '    return RT.leaf(%s, %s, %r)\n' % (namex, kwd, default_value)
    src = 'def f(%s):\n%s' % (', '.join(sig), body)
    env = {'RT': RT, 'DEFAULT': DEFAULT}
    exec(compile(src, '<sim chain %s>' % name, 'exec'), env)
    f = env['f']
    f.__name__ = name.replace('.', '_').replace(':', '_').replace('#', '_')
    return f


_TYPE_CACHE = {}


def _hook_factory(ph, spec):
    """Plain-function hooks made by ONE factory: every instance's hook has the same __name__ and __module__
    (like ContextProcessor's render hooks, or any middleware doing self.request = make_hook() in __init__)."""
    f = make_function(ph, True, spec.get('req', ()), spec.get('opt', ()), spec.get('kwreq', ()), spec.get('kwopt', ()),
                      spec.get('provides', ()), bound=False)
    return f


def make_mw_type(key, unique, reorderable, funcs, wsgi=False, base=None, hooks='method', static_name=None, cls_name=None, field_eq=False, inst_provides=False):
    """One class object per type key: Middleware equality is type equality.

    funcs: {'request'|'endpoint'|'render': {'req':[], 'opt':[], 'kwreq':[], 'kwopt':[], 'provides':[]}}
    base:  another class made here (the new type is a SUBCLASS of it -- still a different type)
    hooks: 'method' (functions on the class) | 'closure' (plain functions set on the instance in __init__)
           | 'static' (staticmethods: every instance hands out the SAME function object; layer name = static_name)"""
    ck = (key, unique, reorderable, repr(sorted((k, sorted(v.items())) for k, v in funcs.items())), id(base), hooks, static_name, cls_name, field_eq, inst_provides)
    if ck in _TYPE_CACHE:
        return _TYPE_CACHE[ck]
    attrs = {'unique': unique, 'reorderable': reorderable}
    closures = {}
    for ph, spec in funcs.items():
        if hooks == 'closure':
            closures[ph] = spec
            attrs[ph] = None
        elif hooks == 'static':
            attrs[ph] = staticmethod(_bind_name(None, static_name + '.' + ph, spec))
        else:
            attrs[ph] = make_function(ph, True, spec.get('req', ()), spec.get('opt', ()), spec.get('kwreq', ()),
                                      spec.get('kwopt', ()), spec.get('provides', ()))
        pattr = {'request': 'provides', 'endpoint': 'endpoint_provides', 'render': 'render_provides'}[ph]
        attrs[pattr] = tuple(spec.get('provides', ()))

    def __init__(self, sim_name):
        self._sim_name = sim_name
        for ph, spec in closures.items():
            if inst_provides and ph == 'request':
                # like ScriptRootMiddleware(provided_name=...): WHAT the instance provides is its own business
                # (here: one more name, after the level the instance is listed at)
                spec = dict(spec, provides=list(spec.get('provides', ())) + ['lv_%s_%s' % (sim_name[0], sim_name.split(':')[-1])])
                self.provides = tuple(spec['provides'])
            hook = _hook_factory(ph, spec)
            # the generated function refers to its layer by name: bind it
            hook = _bind_name(hook, sim_name + '.' + ph, spec)
            setattr(self, ph, hook)

    def __repr__(self):
        return '<simmw %s>' % self._sim_name
    attrs['__init__'] = __init__
    attrs['__repr__'] = __repr__
    if field_eq:
        # a middleware written as a value class (attrs / dataclass style): equality compares the FIELDS
        attrs['__eq__'] = lambda self, other: type(self) is type(other) and self._sim_name == other._sim_name
        attrs['__ne__'] = lambda self, other: not (type(self) is type(other) and self._sim_name == other._sim_name)
        attrs['__hash__'] = lambda self: hash(self._sim_name)
    # cls_name: the class's __name__ (two DIFFERENT types may well be called the same, in different modules)
    cls = type(str(cls_name or key), (base or Middleware,), attrs)
    if len(_TYPE_CACHE) > 4000:
        _TYPE_CACHE.clear()
    _TYPE_CACHE[ck] = cls
    return cls


def _bind_name(template, layer_name, spec):
    """A plain function (no self) with the exact signature of *template* whose layer name is fixed."""
    params_req, params_opt = spec.get('req', ()), spec.get('opt', ())
    kw_req, kw_opt, provides = spec.get('kwreq', ()), spec.get('kwopt', ()), spec.get('provides', ())
    sig = ['next'] + list(params_req) + ['%s=DEFAULT' % p for p in params_opt]
    if kw_req or kw_opt:
        sig.append('*')
        sig += list(kw_req) + ['%s=DEFAULT' % p for p in kw_opt]
    allp = list(params_req) + list(params_opt) + list(kw_req) + list(kw_opt)
    kwd = '{%s}' % ', '.join('%r: %s' % (p, p) for p in allp)
    src = 'def hook(%s):\n    return RT.layer(%r, next, %s, %r)\n' % (', '.join(sig), layer_name, kwd, tuple(provides))
    env = {'RT': RT, 'DEFAULT': DEFAULT, '__name__': 'sim.worlds.chain'}
    exec(compile(src, '<sim chain hook>', 'exec'), env)
    return env['hook']


# ---------------------------------------------------------------------------
# Reference onion interpreter (shared by C03 / C08 / C02): written from the
# property text, independent of sinter.  It mirrors the *labels* RT hands out
# (one per object created by harness code, in creation order), so comparing
# traces also compares the identity of everything that flows through next().

class ModelRaised(Exception):
    def __init__(self, label, kind, breaking=True):
        self.label, self.kind, self.breaking = label, kind, breaking


class OnionModel(object):
    """fn: {'request': [names], 'endpoint': [names], 'render': [names]} outermost first;
    faults: {function name: spec}; ep_value: what EP returns by default ('dict'|'resp'|...)."""

    def __init__(self, fn, faults, ep_value='dict', has_render=True):
        self.fn, self.faults, self.ep_value, self.has_render = fn, faults, ep_value, has_render
        self.trace = []
        self.n = 0

    def new(self, hint):
        self.n += 1
        return '%s#%d' % (hint, self.n)

    def exc(self, spec, who):
        kind = spec.get('exc', 'Boom')
        lab = self.new('exc:' + kind)
        self.trace.append('!%s %s' % (who, lab))
        raise ModelRaised(lab, kind, spec.get('breaking', True))

    def value(self, spec, who):
        v = spec.get('value', 'resp')
        if v in ('resp', 'baseresp', 'falsyresp'):
            return ('resp', self.new('resp:' + who), who, spec.get('status', 202 if v == 'falsyresp' else 200))
        if v.startswith('http:'):
            return ('http', self.new('exc:' + v), v[5:], spec.get('breaking', True))
        if v in ('dict', 'excobj', 'emptydict', 'emptylist'):
            return ('ctx', self.new('ctx:' + who), who, None)
        if v == 'list':
            return ('nonresp', self.new('list:' + who), who, None)
        return ('nonresp', {'str': repr('a-string-from-%s' % who), 'none': 'None', 'number': '42',
                            'bytes': repr(b'bytes')}[v], who, None)

    def layers(self, names, inner):
        if not names:
            return inner()
        name, rest = names[0], names[1:]
        spec = self.faults.get(name) or {'beh': 'pass'}
        beh = spec['beh']
        self.trace.append('>' + name)
        if beh == 'raise_before':
            self.exc(spec, name)
        if beh == 'return_early':
            r = self.value(spec, name)
            self.trace.append('<%s %s' % (name, r[1]))
            return r
        try:
            r = self.layers(rest, inner)
        except ModelRaised as e:
            self.trace.append('x%s %s' % (name, e.label))
            if beh == 'swallow':
                r = self.value(spec, name)
                self.trace.append('<%s %s' % (name, r[1]))
                return r
            raise
        if beh == 'raise_after':
            self.exc(spec, name)
        if beh == 'replace_after':
            r = self.value(spec, name)
        self.trace.append('<%s %s' % (name, r[1]))
        return r

    def leaf(self, name, default_value):
        self.trace.append('>' + name)
        spec = self.faults.get(name) or {'beh': 'pass'}
        if spec['beh'] in ('raise', 'raise_before'):
            self.exc(spec, name)
        if spec['beh'] != 'return' and isinstance(default_value, tuple):
            r = default_value      # a carried value (the catch-all route hands back the last error)
        else:
            r = self.value(spec if spec['beh'] == 'return' else {'value': default_value}, name)
        self.trace.append('<%s %s' % (name, r[1]))
        return r

    def run(self):
        """-> (trace, final) with final = ('value', v) | ('raised', kind)."""
        fn = self.fn

        def process_request():
            ctx = self.layers(fn['endpoint'], lambda: self.leaf('EP', self.ep_value))
            if ctx[0] in ('resp', 'http'):
                return ctx      # a Response from the endpoint side: render and its middlewares are skipped
            if self.has_render:
                return self.layers(fn['render'], lambda: self.leaf('RN', 'resp'))
            return self.layers(fn['render'], lambda: ctx)   # no render function: the context passes unchanged
        try:
            out = self.layers(fn['request'], process_request)
        except ModelRaised as e:
            return self.trace, ('raised', e.kind, e.breaking)
        return self.trace, ('value', out)


def dispatch_outcome(route_fn, app_fn, faults, ep_value, has_render):
    """Outcome of one request to a single-route application, per the property:
    the route's chain; if it ends in a NON-BREAKING HTTP error the catch-all
    route is tried, which runs the application-level middlewares (same faults)
    around an endpoint that hands back the most recent error.
    -> ('status-of-resp', status) | ('http', class name) | ('uncaught', 'injected'|'TypeError')"""
    _, final = OnionModel(route_fn, faults, ep_value, has_render).run()
    for _ in range(2):
        if final[0] == 'raised':
            if not final[1].startswith('http:'):
                return ('uncaught', 'injected')
            carried, breaking = ('http', 'carried', final[1][5:], final[2]), final[2]
        else:
            v = final[1]
            if v[0] == 'resp':
                return ('resp', v[3])
            if v[0] != 'http':
                return ('uncaught', 'TypeError')
            carried, breaking = v, v[3]
        if breaking or app_fn is None:
            return ('http', carried[2])
        nfaults = dict((k, v) for k, v in faults.items() if k not in ('EP', 'RN'))
        m = OnionModel(app_fn, nfaults, carried, False)
        _, final = m.run()
        app_fn = None
    raise AssertionError('unreachable')
