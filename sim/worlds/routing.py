"""Routing-table world: pattern catalogue with a by-construction match relation,
endpoint factory with outcome kinds, and the sequential dispatch model
(written from the property text of C06; shared by C06 and C11)."""
import re
from clastic import Response
from clastic.errors import NotFound, Forbidden, Conflict, ServiceUnavailable, BadRequest


from urllib.parse import unquote as _unquote


def segs(path):
    return [s for s in path.split('/') if s]


def _isint(s):
    # an optional sign directly followed by ASCII digits that Python converts (its limit: 4300 digits); a blank after the
    # sign, other digits, underscores are not integers
    m = re.fullmatch(r'[+-]?([0-9]+)', s)
    return bool(m) and len(m.group(1)) <= 4300


# pattern -> matcher over the list of path segments (pattern is relative, prefix handled separately)
CAT = {
    '/a': lambda s: s == ['a'],
    '/a/': lambda s: s == ['a'],
    '/a/b': lambda s: s == ['a', 'b'],
    '/<x>': lambda s: len(s) == 1,
    '/<x>/': lambda s: len(s) == 1,
    '/a/<n:int>': lambda s: len(s) == 2 and s[0] == 'a' and _isint(s[1]),
    '/<x>/<y>': lambda s: len(s) == 2,
    '/a/<rest+>': lambda s: len(s) >= 2 and s[0] == 'a',
    '/<rest*>': lambda s: True,
    '/b/<x?>': lambda s: len(s) in (1, 2) and s[0] == 'b',
    '/c/<n:int>/': lambda s: len(s) == 2 and s[0] == 'c' and _isint(s[1]),
}
# in strict mode only patterns whose every match has a single spelling are used
STRICT_OK = ['/a', '/a/', '/a/b', '/<x>', '/<x>/', '/a/<n:int>', '/<x>/<y>', '/a/<rest+>', '/c/<n:int>/']
PATHS = ['/%3Cx%3E', '/a/%3Cn:int%3E', '/%3Crest*%3E', '/b/%3Cx%3F%3E', '/c/%3Cn:int%3E/', '/%3Cx%3E/%3Cy%3E', '/a%0A', '/a/b%0A', '/q%0A', '/a/7%0A', '/%0A', '/a%0A/', '/a?v=2', '/a/b?v=2', '/q?v=2', '/a?v=1', '/', '/a', '/a/', '/a/b', '/a/b/', '/a/7', '/b', '/b/q', '/q', '/q/', '/a/b/c', '//a', '/a//b', '/a/7/',
         '/c/5', '/c/5/', '/c/x/', '/b/', '/a/07',
         # segments that look like integers at first sight
         '/a/+7', '/a/-7', '/a/+%207', '/a/-%207', '/c/+%205/', '/a/' + '9' * 4301, '/a/1_0', '/c/+5/']
METHODS = ['GET', 'HEAD', 'POST', 'PUT', 'DELETE', 'get', 'post', 'FOO', 'OPTIONS', 'PATCH', 'TRACE', 'CONNECT']
METHOD_SETS = [None, None, [], ['OPTIONS'], ['PATCH'], ['TRACE'], ['CONNECT'], ['PUT'], ['GET'], ['POST'], ['get', 'PUT'], ['DELETE', 'POST'], ['HEAD'], ['GET', 'POST', 'PUT']]
OUTCOMES = ['qdep', 'qdep', 'ok', 'ok', 'ok', 'brk404', 'brk503', 'brk409_ret', 'brk400_ret', 'nb403_raise', 'nb404_ret', 'nb404_raise', 'nb403_ret', 'boom']
class SimTemplateError(LookupError):
    pass


FACTORY_EXCS = {'RuntimeError': RuntimeError, 'OSError': OSError, 'KeyError': KeyError, 'SimTemplateError': SimTemplateError,
                'AssertionError': AssertionError, 'ValueError': ValueError, 'UnicodeError': UnicodeError}


def make_render_factory(ftag):
    """A render factory as an Application would carry it: render argument -> render function."""
    def factory(arg):
        if str(arg).startswith('bad-template:'):
            # the application's own factory cannot make this renderer -- and says so with an exception of ITS choosing
            raise FACTORY_EXCS[str(arg).split(':')[1]]('render factory %s has no template %r' % (ftag, arg))

        def render(context):
            h = {'X-R': context['tag'], 'X-Route-Res': context['route_res'], 'X-App-Res': context['app_res'],
                 'X-Rendered-By': ftag, 'X-Render-Arg': str(arg)}
            return Response('rendered:' + context['tag'], headers=h)
        return render
    return factory


STATUS = {'qdep': 200, 'nbS403': 403, 'nbS404': 404, 'ok': 200, 'brk404': 404, 'brk503': 503, 'brk409_ret': 409, 'brk400_ret': 400, 'nb403_raise': 403,
          'nb404_ret': 404, 'nb404_raise': 404, 'nb403_ret': 403, 'boom': 500}


PROBED_RESOURCES = ('res0_0', 'res1_0', 'res1_1', 'res2_0', 'res3_0', 'res3_1', 'res4_0', 'res5_0', 'res5_1')


def make_endpoint(tag, out, shared=None):
    """Endpoint echoing which route answered (X-R) and which resources are in scope.
    shared: {'nbS403': error object, ...} pre-built error objects that several routes hand back"""
    def ep(_route, _application, request, res0_0=None, res1_0=None, res1_1=None, res2_0=None, res3_0=None, res3_1=None, res4_0=None,
           res5_0=None, res5_1=None):
        if out in ('nbS403', 'nbS404'):
            return shared[out]
        # (round 14) resources the endpoint takes as DEFAULTED parameters: whichever application of the chain defines one,
        # it must arrive - also when only the embedding application does
        inj = [('res0_0', res0_0), ('res1_0', res1_0), ('res1_1', res1_1), ('res2_0', res2_0), ('res3_0', res3_0), ('res3_1', res3_1),
               ('res4_0', res4_0), ('res5_0', res5_0), ('res5_1', res5_1)]
        h = {'X-R': tag, 'X-Route-Res': ','.join(sorted(_route.resources)),
             'X-App-Res': ','.join(sorted(_application.resources)),
             'X-Injected': ','.join('%s=%s' % (n, v) for n, v in inj if v is not None)}
        if out == 'ctx':
            # a render context: needs a renderer made by some application's render factory
            return {'tag': tag, 'route_res': h['X-Route-Res'], 'app_res': h['X-App-Res']}
        if out == 'ok':
            return Response('ok:' + tag, headers=h)
        if out == 'qdep':
            # answers or declines depending on the QUERY STRING (an API version, a feature flag), not on the path
            if request.args.get('v') == '2':
                return Response('ok:' + tag, headers=h)
            raise NotFound(is_breaking=False, headers=h)
        if out == 'brk404':
            raise NotFound(headers=h)
        if out == 'brk503':
            raise ServiceUnavailable(headers=h)
        if out == 'brk409_ret':
            return Conflict(headers=h)
        if out == 'brk400_ret':
            return BadRequest(headers=h)
        if out == 'nb403_raise':
            raise Forbidden(is_breaking=False, headers=h)
        if out == 'nb404_ret':
            return NotFound(is_breaking=False, headers=h)
        if out == 'nb404_raise':
            raise NotFound(is_breaking=False, headers=h)
        if out == 'nb403_ret':
            return Forbidden(is_breaking=False, headers=h)
        raise ValueError(tag)
    ep.__name__ = 'ep_' + tag
    return ep


def make_shared_errors():
    return {'nbS403': Forbidden(is_breaking=False, headers={'X-R': 'shared-nbS403'}),
            'nbS404': NotFound(is_breaking=False, headers={'X-R': 'shared-nbS404'})}


def norm(path, branch):
    r = segs(path)
    if not r:
        return '/'
    return '/' + '/'.join(r) + ('/' if branch else '')


def admits(methods, method):
    if not methods:
        return True, set()
    ms = set(m.upper() for m in methods)
    if 'GET' in ms:
        ms.add('HEAD')
    return method.upper() in ms, ms


def seen_path(path):
    """werkzeug's Request.path collapses leading slashes of PATH_INFO."""
    return '/' + path.lstrip('/')


def path_matches(entry, path):
    """entry: dict(pattern=<catalogue pattern>, prefix=<'' or '/p/q'>, mode=...)"""
    p = seen_path(_unquote(path.partition('?')[0]))
    s = segs(p)
    pre = segs(entry.get('prefix', ''))
    if s[:len(pre)] != pre:
        return False
    if not CAT[entry['pattern']](s[len(pre):]):
        return False
    if entry.get('mode', 'redirect') == 'strict':
        branch = entry['pattern'].endswith('/')
        return p == norm(p, branch)
    return True


def dispatch_model(table, path, method):
    """table: ordered entries {pattern, prefix, mode, methods, out, tag}; path may carry a query string.
    -> dict(status, tag, allow, location)   (sequential model of the one dispatch loop)"""
    path, _, query = path.partition('?')
    path = _unquote(path)            # the server hands the application the percent-DECODED path
    p = seen_path(path)
    last_nb = None
    allowed = set()
    for e in table:
        if not path_matches(e, path):
            continue
        out = e['out']
        if out == 'qdep':
            out = 'ok' if 'v=2' in query.split('&') else 'nb404_raise'
        ok, ms = admits(e['methods'], method)
        if not ok:
            allowed |= ms
            continue
        branch = e['pattern'].endswith('/')
        if branch and norm(p, True) != p and e.get('mode', 'redirect') == 'redirect':
            return {'status': 302, 'tag': None, 'allow': None, 'location': norm(p, True)}
        if out == 'ctx':
            if e.get('render'):
                return {'status': 200, 'tag': e['tag'], 'allow': None, 'location': None, 'entry': e}
            return {'status': 500, 'tag': None, 'allow': None, 'location': None}     # context without a renderer
        st = STATUS[out]
        if out.startswith('nbS'):
            last_nb = (st, 'shared-' + out)      # the one pre-built object several routes return
            continue
        if out.startswith('nb'):
            last_nb = (st, e['tag'])
            continue
        return {'status': st, 'tag': e['tag'] if out != 'boom' else None, 'allow': None, 'location': None,
                'entry': e}
    if last_nb:
        return {'status': last_nb[0], 'tag': last_nb[1], 'allow': None, 'location': None}
    if allowed:
        return {'status': 405, 'tag': None, 'allow': allowed, 'location': None}
    return {'status': 404, 'tag': None, 'allow': None, 'location': None}


def observe(ex):
    allow = ex.header('Allow')
    return {'status': ex.code, 'tag': ex.header('X-R'),
            'allow': set(x.strip() for x in allow.split(',') if x.strip()) if allow is not None else None,
            'location': ex.header('Location'), 'route_res': ex.header('X-Route-Res'), 'app_res': ex.header('X-App-Res'),
            'injected': ex.header('X-Injected'), 'rendered_by': ex.header('X-Rendered-By'), 'stamp': ex.header('X-Stamp'), 'route_mark': ex.header('X-Route-Mark'),
            'escaped': type(ex.escaped).__name__ if ex.escaped is not None else None}


def compare(exp, got):
    """-> None or (key fragment, message)"""
    if got['escaped']:
        return ('exception-escaped:' + got['escaped'], 'an exception escaped the application')
    if got['status'] != exp['status']:
        return ('status-%s-not-%s' % (got['status'], exp['status']), 'status %s, expected %s' % (got['status'], exp['status']))
    if exp['status'] == 302:
        loc = _unquote(got['location'] or '')
        if not loc.split('?')[0].endswith(exp['location']) or not loc.split('?')[0].split('://')[-1].partition('/')[2] == exp['location'][1:]:
            return ('redirect-location', 'Location %r, expected path %r' % (loc, exp['location']))
        return None
    if got['tag'] != exp['tag']:
        return ('wrong-route-answered', 'answered by %r, expected %r' % (got['tag'], exp['tag']))
    if exp['status'] == 405:
        if got['allow'] is None:
            return ('405-without-allow', 'no Allow header; expected %s' % sorted(exp['allow']))
        if got['allow'] != exp['allow']:
            return ('405-allow-differs', 'Allow %s, expected exactly %s' % (sorted(got['allow']), sorted(exp['allow'])))
    return None
