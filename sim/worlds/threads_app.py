"""Application code served in the thread world (C12) -- pre-emptible.

Everything here is *application* code in clastic's sense: it must be (and is)
free of shared mutable state, so that any cross-request leak observed by the
oracle comes from the framework.  Per-request observations are written into the
request's own environ dict, which the harness created for that request.
"""
from clastic import Application, Response, Middleware, GET, POST, Route
from clastic.utils import Redirector
from clastic.middleware.cookie import SignedCookieMiddleware
from clastic.errors import NotFound, Forbidden, Conflict, ErrorHandler
from clastic import S_REDIRECT, S_REWRITE, S_STRICT


CART_KEY = b'thread-world-cart-key'


def cart_cookie(items):
    """Cookie header value a client holding this cart sends (signed with the application's key)."""
    from clastic.middleware.cookie import JSONCookie
    return 'clastic_cookie=' + JSONCookie({'cart': list(items)}, CART_KEY).serialize().decode()


def rid(request):
    return request.args.get('id', '?')


class IdMW(Middleware):
    """Records the framework-assigned request id; app-level, so it also runs
    on the catch-all 404/405 route."""

    def request(self, next, request):
        request.environ['sim.ids'].append(getattr(request, 'request_id', None))
        request.environ['sim.guids'].append(getattr(request, 'request_guid', None))
        request.environ['sim.req_objs'].append(request)
        return next()


class TokMW(Middleware):
    provides = ('tok',)

    def request(self, next, request):
        resp = next(tok='tok-' + rid(request))
        try:
            # the value this middleware provided for THIS request is also stamped on whatever comes back
            resp.headers['X-Sim-Tok'] = 'tok-' + rid(request)
        except Exception:
            pass
        return resp


class EpTokMW(Middleware):
    endpoint_provides = ('eptok',)

    def endpoint(self, next, request, _dispatch_state):
        request.environ['sim.ds'].append(_dispatch_state)
        return next(eptok='eptok-' + rid(request))


class RenderMW(Middleware):
    render_provides = ('rtok',)

    def render(self, next, context, request):
        if isinstance(context, dict):
            context['seen_by_render_mw'] = rid(request)
        return next(rtok='rtok-' + rid(request))


class SubMW(Middleware):
    provides = ('subtok',)

    def request(self, next, request, sub_res):
        return next(subtok='%s-%s' % (sub_res, rid(request)))


def ep_hi(name, request, tok=None, eptok=None, _dispatch_state=None):
    request.environ['sim.ds'].append(_dispatch_state)
    body = 'hi|%s|%s|%s|%s' % (name, tok, eptok, rid(request))
    return Response(body, headers={'X-Sim-Route': 'hi', 'X-Sim-Id': rid(request)})


def ep_ctx(n, rest, request, tok=None):
    return {'n': n, 'rest': list(rest), 'tok': tok, 'id': rid(request)}


def render_ctx(context, request, rtok=None):
    items = sorted((k, repr(v)) for k, v in context.items())
    body = 'ctx|' + '|'.join('%s=%s' % kv for kv in items) + '|rtok=%s|%s' % (rtok, rid(request))
    return Response(body, headers={'X-Sim-Route': 'ctx', 'X-Sim-Id': rid(request)})


def ep_fall_a(x, request, tok=None):
    if x.startswith('n'):
        raise NotFound(detail='fall-a-declines-%s-%s' % (x, rid(request)), is_breaking=False)
    return Response('fallA|%s|%s|%s' % (x, tok, rid(request)), headers={'X-Sim-Route': 'fallA'})


def ep_fall_b(y, request, tok=None):
    if y.startswith('nn'):
        return Forbidden(detail='fall-b-declines-%s-%s' % (y, rid(request)), is_breaking=False)
    return Response('fallB|%s|%s|%s' % (y, tok, rid(request)), headers={'X-Sim-Route': 'fallB'})


def ep_post(request, tok=None):
    return Response('post|%s|%s|%s' % (tok, rid(request), request.get_data(as_text=True)),
                    headers={'X-Sim-Route': 'post'})


def ep_boom(request, tok=None):
    raise ValueError('boom-%s-%s' % (tok, rid(request)))


def _load_record(request):
    # a helper two endpoints share: both fail at the SAME line with the SAME message
    raise ValueError('record store unavailable')


def ep_help_a(request, tok=None):
    return _load_record(request)


def ep_help_b(request, tok=None):
    return _load_record(request)


def ep_dir(request, tok=None):
    return Response('dir|%s|%s' % (tok, rid(request)), headers={'X-Sim-Route': 'dir'})


def ep_br(x, request, tok=None):
    return Response('br|%s|%s|%s' % (x, tok, rid(request)), headers={'X-Sim-Route': 'br'})


def ep_ret409(request, tok=None):
    return Conflict(detail='conflict-%s-%s' % (tok, rid(request)))


def ep_raise403(request, tok=None):
    raise Forbidden(detail='forbidden-%s-%s' % (tok, rid(request)))


def ep_sub(name, request, sub_res, subtok, tok=None):
    return Response('sub|%s|%s|%s|%s|%s' % (name, sub_res, subtok, tok, rid(request)),
                    headers={'X-Sim-Route': 'sub'})


def ep_item_get(name, request, tok=None):
    return Response('iget|%s|%s|%s' % (name, tok, rid(request)), headers={'X-Sim-Route': 'item-get'})


def ep_item_post(name, request, tok=None):
    return Response('ipost|%s|%s|%s' % (name, tok, rid(request)), headers={'X-Sim-Route': 'item-post'})


def ep_item_put(name, request, tok=None):
    return Response('iput|%s|%s|%s' % (name, tok, rid(request)), headers={'X-Sim-Route': 'item-put'})


def ep_doc_v2(request, tok=None):
    # declines -- depending on the QUERY, not on the path
    if request.args.get('v') != '2':
        raise NotFound(detail='doc-v2-declines-%s' % rid(request), is_breaking=False)
    return Response('docv2|%s|%s' % (tok, rid(request)), headers={'X-Sim-Route': 'doc-v2'})


def ep_doc(request, tok=None):
    return Response('doc|%s|%s' % (tok, rid(request)), headers={'X-Sim-Route': 'doc'})


def ep_cart(request, cookie, tok=None):
    # reads a list kept in the signed cookie and works on it (without storing it back)
    cart = cookie.get('cart', [])
    cart.append(request.args.get('add', '?'))
    return Response('cart|%s|%s' % (','.join(cart), rid(request)), headers={'X-Sim-Route': 'cart'})


def ep_keep(request, cookie, tok=None):
    cookie['seen'] = rid(request)          # stores something: the cookie is saved with this response
    return Response('keep|%s' % rid(request), headers={'X-Sim-Route': 'keep'})


def ep_logout(request, cookie, tok=None):
    cookie.set_expires()                   # ends THIS visitor's session
    return Response('logout|%s' % rid(request), headers={'X-Sim-Route': 'logout'})


def ep_nonresp(request, tok=None):
    return 'not-a-response-%s' % rid(request)


class EchoErrorHandler(ErrorHandler):
    """render_error that stamps the request's id on the error response."""

    def render_error(self, request, _error, _dispatch_state):
        request.environ['sim.ds'].append(_dispatch_state)
        resp = ErrorHandler.render_error(self, request, _error)
        resp.headers['X-Sim-Err-Id'] = rid(request)
        # what THIS request's dispatch recorded (methods of mismatching routes, declined errors)
        resp.headers['X-Sim-DS'] = '%s|%d' % (','.join(sorted(_dispatch_state.allowed_methods)), len(_dispatch_state.exceptions))
        return resp


def build(cfg):
    mws = [IdMW()]
    if cfg.get('tok', True):
        mws.append(TokMW())
    if cfg.get('eptok', True):
        mws.append(EpTokMW())
    if cfg.get('rendermw', True):
        mws.append(RenderMW())
    cart_mw = SignedCookieMiddleware(secret_key=CART_KEY)      # one instance serving three routes
    sub = Application([('/echo/<name>', ep_sub)], resources={'sub_res': 'subres'},
                      middlewares=[SubMW()])
    routes = [
        ('/hi/<name>', ep_hi),
        ('/ctx/<n:int>/<rest+>', ep_ctx, render_ctx),
        ('/fall/<x>', ep_fall_a),
        ('/fall/<y>', ep_fall_b),
        POST('/post', ep_post),
        # three method-restricted routes on ONE path: a request with another method is rejected by each in turn
        GET('/item/<name>', ep_item_get),
        POST('/item/<name>', ep_item_post),
        Route('/item/<name>', ep_item_put, methods=['PUT']),
        ('/doc', ep_doc_v2),
        ('/doc', ep_doc),
        ('/boom', ep_boom),
        ('/helpa', ep_help_a),
        ('/helpb', ep_help_b),
        ('/go', Redirector('/hi/there', code=302)),
        Route('/cart', ep_cart, middlewares=[cart_mw]),
        Route('/keep', ep_keep, middlewares=[cart_mw]),
        Route('/logout', ep_logout, middlewares=[cart_mw]),
        ('/dir/', ep_dir),
        ('/br/<x>/', ep_br),
        ('/ret409', ep_ret409),
        ('/raise403', ep_raise403),
        ('/nonresp', ep_nonresp),
        ('/sub', sub),
    ]
    eh = EchoErrorHandler() if cfg.get('echo_errors', True) else None
    slash = {'redirect': S_REDIRECT, 'rewrite': S_REWRITE, 'strict': S_STRICT}[cfg.get('slash', 'redirect')]
    return Application(routes, middlewares=mws, error_handler=eh, slash_mode=slash)
