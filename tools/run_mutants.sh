#!/bin/bash
# Sensitivity suite: every patch in /verif/mutants (and /verif/seeded/*/patch.diff) against the check of its property.
# Writes /verif/mutants/RESULTS.md.  usage: tools/run_mutants.sh [tier]
# ONLY="C03 C12" tools/run_mutants.sh quick   -- re-runs the changes of those properties only; the other rows are kept
TIER=${1:-quick}
cd /verif
OUT=mutants/RESULTS.md
ONLY=${ONLY:-}
keep_row() {   # prints the stored row of a change whose property is not re-run; fails if there is none
  grep -F "| $1 |" $OUT | head -1 | grep . 
}
echo "# Sensitivity suite results (tier: $TIER; tree $(git -C /repo log --format=%h -1))" > $OUT.tmp
echo >> $OUT.tmp
echo "| change | property | result | first violation key |" >> $OUT.tmp
echo "|---|---|---|---|" >> $OUT.tmp
run_one() {
  local patch=$1 prop=$2
  local log; log=$(bin/mutant-test "$patch" "$prop" "$TIER" 2>&1)
  local verdict; verdict=$(echo "$log" | grep -E '^(CAUGHT|MISSED|HARNESS-ERROR|PATCH-FAILED)' | tail -1 | awk '{print $1}')
  local key; key=$(echo "$log" | grep -m1 '^  key=' | sed 's/^  key=//')
  echo "| $(basename $(dirname $patch))/$(basename $patch) | $prop | ${verdict:-?} | \`${key}\` |"
}
for p in mutants/*.patch mutants/selftest/*.patch; do
  prop=$(basename $p | cut -c1-3 | tr a-z A-Z)
  if [ -n "$ONLY" ] && ! echo " $ONLY " | grep -q " $prop "; then keep_row "$(basename $(dirname $p))/$(basename $p)" >> $OUT.tmp && continue; fi
  run_one $p $prop >> $OUT.tmp
done
for d in seeded/*/; do
  [ -f "$d/patch.diff" ] || continue
  grep -q obsolete_after "$d/meta.json" && continue
  grep -q '"out_of_scope"' "$d/meta.json" && continue
  prop=$(/venv/bin/python -c "import json,sys; print(json.load(open('$d/meta.json'))['property'])")
  if [ -n "$ONLY" ] && ! echo " $ONLY " | grep -q " $prop "; then keep_row "$(basename $d)/patch.diff" >> $OUT.tmp && continue; fi
  line=$(run_one $d/patch.diff $prop)
  echo "$line" >> $OUT.tmp
  /venv/bin/python - "$d/meta.json" "$line" "$TIER" <<'PY'
import json, sys
m = json.load(open(sys.argv[1]))
cells = [c.strip() for c in sys.argv[2].split('|')]
m['check_result_current'] = {'tier': sys.argv[3], 'verdict': cells[3], 'first_key': cells[4].strip('`')}
json.dump(m, open(sys.argv[1], 'w'), indent=1)
PY
done
mv $OUT.tmp $OUT
rm -f replays/*.json
grep -c CAUGHT $OUT; grep -E 'MISSED|HARNESS|PATCH-FAILED|\?' $OUT
