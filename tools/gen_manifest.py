#!/venv/bin/python
"""Regenerates /verif/MANIFEST.json from the check classes under sim/props and
the not-applicable table below, and validates it against the schema."""
import glob
import json
import os
import sys

VERIF = os.path.dirname(os.path.dirname(os.path.abspath(__file__)))
sys.path.insert(0, VERIF)
sys.path.insert(0, os.environ.get('VERIF_REPO', '/repo'))
import warnings
warnings.simplefilter('ignore')

NA = {
    'C01': 'pure function of the route configuration (accept/reject at construction; the request-time clause is a pure consequence): no schedule, clock, fault, party or history to simulate. The hash-seed dimension is claimed under C02, where the property states it.',
    'C04': 'name-conflict and reserved-name rejection is a pure function of the configuration, decided once at bind time; nothing for a simulator to schedule or fail.',
    'C05': 'pattern x path matching is a pure function (one compiled regex plus converters); enumerating inputs would be property-based testing, not simulation.',
    'C07': 'the redirect target is a pure function of (slash mode, pattern, URL); the one-hop clause is idempotence of a pure function, not liveness under faults.',
    'C09': 'status, negotiated format and escaping of an error body are a pure function of (error fields, Accept header, handler).',
    'C10': 'embedded == flat is a differential statement over configurations and inputs with no fault, time or history dimension (histories of embedding operations and their failure atomicity are C11, which is claimed).',
    'C17': 'renderer output is a pure function of the endpoint result and the request format hints.',
}

TECH = {
    'C02': 'deterministic simulation: seeded request histories and thread interleavings over generated injection stacks, hash-seed sweep in fresh interpreters, independent source-resolution oracle',
    'C03': 'deterministic simulation with fault injection: per-layer fault sweep (raise before/after next, early return, swallow) against a reference onion interpreter',
    'C06': 'deterministic simulation: seeded add()/request histories with failing routes against a sequential dispatch model',
    'C08': 'deterministic simulation with fault injection: fault kind x position x error handler, histories with recovery check',
    'C11': 'deterministic simulation with fault injection: operation histories with mid-operation failures against model routing tables (atomicity / isolation)',
    'C12': 'deterministic simulation: baton-scheduled real threads pre-empted at sys.monitoring line/instruction events; PCT + random + complete depth-1 sweep; replayable schedules',
    'C13': 'deterministic simulation: simulated WSGI server (HEAD, abort, no-iteration, file_wrapper) with PEP 3333 monitor, wsgiref.validate and open/close ledger',
    'C14': 'deterministic simulation with fault injection: real scratch tree behind a fault-injecting filesystem seam, complete single-fault sweep per request, TOCTOU vanish/appear, simulated clock',
    'C15': 'deterministic simulation: lock-step twin (with/without middleware) over client histories under simulated clock and adversarial randomness',
    'C16': 'deterministic simulation with fault injection: multi-client histories, simulated clock around expiry, byzantine cookie tampering, token-registry oracle',
    'C18': 'deterministic simulation with fault injection: host/system-call failures swept per call site under a stubbed host',
    'C19': 'deterministic simulation: request/read/reset histories under simulated clock; reservoir histories under adversarial randomness seam',
    'C20': 'deterministic simulation with fault injection: scripted child-process crashes and restarts under the real supervisor loop',
}


def main():
    from sim.core import runner
    checks = []
    for p in sorted(glob.glob(os.path.join(VERIF, 'sim', 'props', 'c[0-9]*.py'))):
        pid = os.path.basename(p)[:-3].upper()
        chk = runner.load_check(pid)
        checks.append({
            'property_id': pid,
            'quick_cmd': 'cd /verif && bin/simcheck run --property %s --tier quick' % pid,
            'thorough_cmd': 'cd /verif && bin/simcheck run --property %s --tier thorough' % pid,
            'evidence_file': '/verif/evidence/%s.json' % pid,
            'replay_cmd_template': 'cd /verif && bin/simcheck replay {path}',
            'engine': 'clastic-sim',
            'level_claimed': {'category': chk.level, 'text': chk.level_text, 'design_ref': chk.design_ref},
            'level_note': chk.level_note,
            'technique': TECH[pid],
        })
    claimed = set(c['property_id'] for c in checks)
    na = [{'property_id': k, 'reason': v} for k, v in sorted(NA.items())]
    props = [json.loads(l)['id'] for l in open(os.path.join(VERIF, 'properties.jsonl'))]
    for pid in props:
        if pid not in claimed and pid not in NA:
            na.append({'property_id': pid, 'reason': 'check not built yet (designed in DESIGN.md section 3; not claimed until its check exists and is soaked)'})
    na.sort(key=lambda x: x['property_id'])
    doc = {
        'version': 1,
        'setup_cmd': 'cd /verif && bin/simcheck doctor',
        'hooks': {'guard': 'CLASTIC_VERIF', 'enable': 'no hooks in /repo: every seam is a module global or argument replaced from outside (DESIGN.md section 1); the guard name is reserved and unused',
                  'baseline_off_cmd': 'cd /repo && /venv/bin/python -m pytest -ra -q -p no:cacheprovider --timeout=900 --continue-on-collection-errors',
                  'source_commits': [], 'add_only': True},
        'engines': [{'name': 'clastic-sim', 'path': '/verif/sim', 'serves_properties': sorted(claimed),
                     'kind_free_text': 'deterministic simulation with fault injection: seeded plan generators, plan executors over the real clastic with simulated server/clients/clock/randomness/filesystem/host/child processes/thread scheduler, ddmin minimiser, replay files'}],
        'checks': checks,
        'not_applicable': na,
        'notes': 'Exit codes: 0 held, 1 VIOLATION (with replay), 2 HARNESS-ERROR (never a violation). VERIF_SEED selects the base seed; VERIF_REPO points a check at another tree (sensitivity suite only).',
    }
    with open(os.path.join(VERIF, 'MANIFEST.json'), 'w') as f:
        json.dump(doc, f, indent=1)
    print('MANIFEST.json: %d checks, %d not applicable' % (len(checks), len(na)))


if __name__ == '__main__':
    main()
