#!/bin/bash
# usage: tools/verify_round.sh /tmp/seedN_out agentN   -- verifies every <ID>/{a,b} (or <ID>/) deliverable of a seeding round
OUT=$1; SUF=$2
for d in $OUT/C*/; do
  id=$(basename $d)
  for sub in a b .; do
    [ -f "$d/$sub/patch.diff" ] || continue
    name=${id}-${SUF}$( [ "$sub" = "." ] && echo "" || echo $sub )
    [ -d /verif/seeded/$name ] && continue
    r=$(/verif/tools/verify_seeded.sh $d/$sub $id $name 2>&1 | tail -2 | tr '\n' ' ' | cut -c1-200)
    echo "$name: $r"
  done
done
