#!/venv/bin/python
"""usage: tools/meta_round.py agentN  -- fills summary/needs in seeded/*-agentN*/meta.json from the first two lines of notes.md
(round >= 14 prompts ask for: line 1 = one-sentence summary, line 2 = 'NEEDS: ...')."""
import glob, json, os, sys
suf = sys.argv[1]
for d in sorted(glob.glob('/verif/seeded/*-%s*/' % suf)):
    mp = d + 'meta.json'
    m = json.load(open(mp))
    if m.get('summary'):
        continue
    lines = [l.strip().lstrip('#').strip() for l in open(d + 'notes.md').read().splitlines() if l.strip()] if os.path.exists(d + 'notes.md') else []
    m['summary'] = (lines[0] if lines else '')[:200].replace('|', '/')
    needs = next((l for l in lines if l.upper().startswith('NEEDS')), lines[1] if len(lines) > 1 else '')
    m['needs'] = needs.split(':', 1)[-1].strip()[:240].replace('|', '/')
    json.dump(m, open(mp, 'w'), indent=1)
    print(os.path.basename(d.rstrip('/')), '|', m['summary'], '|', m['needs'])
