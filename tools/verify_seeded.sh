#!/bin/bash
# usage: tools/verify_seeded.sh <src dir with patch.diff demo.py notes.md> <property> <name>
# Confirms a seeded change independently (tests pass, demo fails with / passes without), then runs the check on it.
set -u
SRC=$1; PROP=$2; NAME=$3
DST=/verif/seeded/$NAME
SCR=$(mktemp -d /tmp/vseed-XXXXXX)
trap 'rm -rf "$SCR"' EXIT
rsync -a --exclude .git --exclude '__pycache__' --exclude '*.egg-info' /repo/ "$SCR/clean/"
cp -r "$SCR/clean" "$SCR/mut"
( cd "$SCR/mut" && patch -p1 -s < "$SRC/patch.diff" ) || { echo "PATCH-FAILED"; exit 2; }
TESTS=$(cd "$SCR/mut" && PYTHONPATH="$SCR/mut" /venv/bin/python -m pytest -q -p no:cacheprovider clastic 2>&1 | tail -1)
PYTHONPATH="$SCR/mut" timeout 300 /venv/bin/python "$SRC/demo.py" > "$SCR/demo_mut.txt" 2>&1; RC_MUT=$?
PYTHONPATH="$SCR/clean" timeout 300 /venv/bin/python "$SRC/demo.py" > "$SCR/demo_clean.txt" 2>&1; RC_CLEAN=$?
echo "tests: $TESTS | demo on changed tree rc=$RC_MUT | demo on clean tree rc=$RC_CLEAN"
if ! echo "$TESTS" | grep -q "89 passed" || [ $RC_MUT -eq 0 ] || [ $RC_CLEAN -ne 0 ]; then echo "NOT-CONFIRMED $NAME"; tail -3 "$SCR/demo_mut.txt" "$SCR/demo_clean.txt"; exit 3; fi
CHECK=$(cd /verif && bin/mutant-test "$SRC/patch.diff" "$PROP" quick 2>&1 | grep -E '^(CAUGHT|MISSED|HARNESS-ERROR|  key=)' | head -4 | tr '\n' ' ')
echo "check: $CHECK"
mkdir -p "$DST"
cp "$SRC/patch.diff" "$SRC/demo.py" "$DST/"
[ -f "$SRC/notes.md" ] && cp "$SRC/notes.md" "$DST/"
/venv/bin/python - "$DST" "$PROP" "$NAME" "$TESTS" "$RC_MUT" "$RC_CLEAN" "$CHECK" <<'PY'
import json, sys, os
dst, prop, name, tests, rc_mut, rc_clean, check = sys.argv[1:8]
notes = open(os.path.join(dst, 'notes.md')).read() if os.path.exists(os.path.join(dst, 'notes.md')) else ''
meta = {'property': prop, 'name': name, 'origin': 'independent sub-agent given only the property text and a scratch worktree',
        'needs_to_manifest': notes[:1500],
        'confirmed': {'test_suite_on_changed_tree': tests, 'demo_on_changed_tree_exit': int(rc_mut), 'demo_on_clean_tree_exit': int(rc_clean),
                      'how': 'tools/verify_seeded.sh: rsync copy of /repo, patch -p1, pytest, demo.py with PYTHONPATH on both trees'},
        'check_result_quick': check.strip()}
json.dump(meta, open(os.path.join(dst, 'meta.json'), 'w'), indent=1)
PY
echo "STORED $DST"
