#!/venv/bin/python
"""usage: mkmutant.py <name> <file-relative-to-repo> <<< python-literal list of (old, new) pairs
Creates /verif/mutants/<name>.patch (p1, relative to repo root) from /repo's working tree."""
import ast, difflib, os, sys
name, rel = sys.argv[1], sys.argv[2]
pairs = ast.literal_eval(sys.stdin.read())
src = open(os.path.join('/repo', rel)).read()
new = src
for old, rep in pairs:
    assert new.count(old) >= 1, 'not found: %r' % old
    new = new.replace(old, rep, 1)
assert new != src
diff = ''.join(difflib.unified_diff(src.splitlines(True), new.splitlines(True), 'a/' + rel, 'b/' + rel))
open(os.path.join('/verif/mutants', name + '.patch'), 'w').write(diff)
print('wrote', name)
