#!/venv/bin/python
"""Prints the markdown table of DESIGN.md section 9.4 from seeded/*/meta.json (fields: summary, needs, history)."""
import glob, json, os
print('| seeded change | the change | what it needs to manifest | caught by | caught at |')
print('|---|---|---|---|---|')
first = later = missed = 0
for d in sorted(glob.glob('/verif/seeded/*/')):
    name = os.path.basename(d.rstrip('/'))
    m = json.load(open(d + 'meta.json'))
    if 'out_of_scope' in m:
        print('| `seeded/%s` | %s | %s | - | not adopted: %s |' % (name, m.get('summary', ''), m.get('needs', ''), m['out_of_scope'][:260]))
        continue
    if 'missed' in m:
        missed += 1
        print('| `seeded/%s` | %s | %s | - | MISSED: %s |' % (name, m.get('summary', ''), m.get('needs', ''), m['missed'][:300]))
        continue
    if 'history' in m:
        later += 1
        at = 'after extension: ' + m['history'].split(' - then')[0].replace('missed at first: ', '').replace('missed at first (caught by C19 as it stood): ', '')[:170]
    else:
        first += 1
        at = 'first run'
    print('| `seeded/%s` | %s | %s | %s quick | %s |' % (name, m.get('summary', ''), m.get('needs', ''), m['property'], at))
print()
print('%d seeded changes; %d caught by the quick tier as it stood, %d after the extension named, %d missed (round 14, not yet extended).' % (first + later + missed, first, later, missed))
