#!/usr/bin/env python3-vt
"""Validates MANIFEST.json and every evidence file against the schemas (needs jsonschema: python3-vt)."""
import glob, json, sys, jsonschema
ok = True
m = json.load(open('/verif/MANIFEST.json'))
jsonschema.validate(m, json.load(open('/root/.vp/MANIFEST.schema.json')))
es = json.load(open('/root/.vp/EVIDENCE.schema.json'))
for c in m['checks']:
    try:
        e = json.load(open(c['evidence_file']))
        jsonschema.validate(e, es)
        assert e['level'] == c['level_claimed']['category'], 'level mismatch'
        print('ok', c['property_id'], e['tier'], e['coverage']['evaluations'], e['coverage']['distinct_nontrivial'])
    except Exception as ex:
        ok = False
        print('BAD', c['property_id'], repr(ex)[:300])
ids = [json.loads(l)['id'] for l in open('/verif/properties.jsonl')]
have = [c['property_id'] for c in m['checks']] + [n['property_id'] for n in m.get('not_applicable', [])]
assert sorted(ids) == sorted(have), (sorted(set(ids) - set(have)), sorted(set(have) - set(ids)))
print('manifest ok:', len(m['checks']), 'checks')
sys.exit(0 if ok else 1)
