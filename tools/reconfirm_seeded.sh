#!/bin/bash
# usage: tools/reconfirm_seeded.sh <seeded name> [note]  -- re-confirms a stored seeded change against the CURRENT /repo
# (after its patch was rebased onto a repaired tree): tests pass with it, demo fails with it / passes without; then runs its check.
set -u
NAME=$1; NOTE=${2:-}
DIR=/verif/seeded/$NAME
PROP=$(/venv/bin/python -c "import json; print(json.load(open('$DIR/meta.json'))['property'])")
SCR=$(mktemp -d /tmp/vseed-XXXXXX)
trap 'rm -rf "$SCR"' EXIT
rsync -a --exclude .git --exclude '__pycache__' --exclude '*.egg-info' /repo/ "$SCR/clean/"
cp -r "$SCR/clean" "$SCR/mut"
( cd "$SCR/mut" && patch -p1 -s < "$DIR/patch.diff" ) || { echo "PATCH-FAILED $NAME"; exit 2; }
TESTS=$(cd "$SCR/mut" && PYTHONPATH="$SCR/mut" /venv/bin/python -m pytest -q -p no:cacheprovider clastic 2>&1 | tail -1)
PYTHONPATH="$SCR/mut" timeout 300 /venv/bin/python "$DIR/demo.py" > "$SCR/demo_mut.txt" 2>&1; RC_MUT=$?
PYTHONPATH="$SCR/clean" timeout 300 /venv/bin/python "$DIR/demo.py" > "$SCR/demo_clean.txt" 2>&1; RC_CLEAN=$?
echo "$NAME tests: $TESTS | demo changed rc=$RC_MUT | demo clean rc=$RC_CLEAN"
if ! echo "$TESTS" | grep -q "89 passed" || [ $RC_MUT -eq 0 ] || [ $RC_CLEAN -ne 0 ]; then echo "NOT-CONFIRMED $NAME"; tail -3 "$SCR/demo_mut.txt" "$SCR/demo_clean.txt"; exit 3; fi
CHECK=$(cd /verif && bin/mutant-test "$DIR/patch.diff" "$PROP" quick 2>&1 | grep -E '^(CAUGHT|MISSED|HARNESS-ERROR|  key=)' | head -4 | tr '\n' ' ')
echo "check: $CHECK"
/venv/bin/python - "$DIR" "$TESTS" "$RC_MUT" "$RC_CLEAN" "$CHECK" "$NOTE" "$(git -C /repo log --format=%h -1)" <<'PY'
import json, sys
d, tests, rc_mut, rc_clean, check, note, head = sys.argv[1:8]
m = json.load(open(d + '/meta.json'))
m['reconfirmed'] = {'on_repo_commit': head, 'test_suite_on_changed_tree': tests, 'demo_on_changed_tree_exit': int(rc_mut),
                    'demo_on_clean_tree_exit': int(rc_clean), 'check_result_quick': check.strip(), 'note': note}
json.dump(m, open(d + '/meta.json', 'w'), indent=1)
PY
